---- MODULE MC_Arma2Psd ----
EXTENDS Arma2Psd
PartsS == -1..1
PartsQ == -2..2
RhoSet == {<<1, 1>>, <<1, 2>>, <<3, 1>>}
TSet == {<<1, 1>>, <<2, 1>>, <<1, 4>>}
RhoOne == {<<1, 2>>}
TOne == {<<2, 1>>, <<1, 4>>}
====
