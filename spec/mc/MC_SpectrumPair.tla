---- MODULE MC_SpectrumPair ----
EXTENDS SpectrumPair
OpsSmall == {<<"SetNFFT", 24>>, <<"SetNFFT", 33>>, <<"SetSampling", 1048580>>, <<"SetSampling", 1048576>>, <<"SetSides", "twosided">>, <<"SetSides", "default">>, <<"ReadPsd", 0>>}
I1 == [data |-> 1, N |-> 16, dt |-> "real", nfft |-> 16, samp |-> 1048576, sides |-> "onesided", scale |-> FALSE, detrend |-> "none", window |-> "hann", lag |-> 0, ar |-> 0, ma |-> 0]
I2 == [data |-> 1, N |-> 16, dt |-> "real", nfft |-> 33, samp |-> 2097152, sides |-> "onesided", scale |-> FALSE, detrend |-> "none", window |-> "hann", lag |-> 0, ar |-> 0, ma |-> 0]
====
