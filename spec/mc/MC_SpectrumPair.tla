---- MODULE MC_SpectrumPair ----
EXTENDS SpectrumPair
OpsSmall == {<<"SetNFFT", 24>>, <<"SetNFFT", 33>>, <<"SetSampling", 2048>>, <<"SetSampling", 1024>>, <<"SetSides", "twosided">>, <<"SetSides", "default">>, <<"ReadPsd", 0>>}
I1 == [data |-> 1, N |-> 16, dt |-> "real", nfft |-> 16, samp |-> 1024, sides |-> "onesided", scale |-> FALSE, detrend |-> "none", window |-> "hann", lag |-> 0, ar |-> 0, ma |-> 0]
I2 == [data |-> 1, N |-> 16, dt |-> "real", nfft |-> 33, samp |-> 2048, sides |-> "onesided", scale |-> FALSE, detrend |-> "none", window |-> "hann", lag |-> 0, ar |-> 0, ma |-> 0]
====
