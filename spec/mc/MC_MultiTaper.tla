---- MODULE MC_MultiTaper ----
EXTENDS MultiTaper
PartsS == -1..1
PartsQ == -2..2
\* two "tapers" of length 3 and of length 4 (not Slepian: pmtm accepts any), with eigenvalues
T3 == << <<<<1, 2>>, <<1, 1>>, <<1, 2>>>>, <<<<1, 1>>, <<0, 1>>, <<-1, 1>>>> >>
T4 == << <<<<1, 4>>, <<3, 4>>, <<3, 4>>, <<1, 4>>>>, <<<<1, 2>>, <<1, 4>>, <<-1, 4>>, <<-1, 2>>>>, <<<<1, 2>>, <<-1, 2>>, <<-1, 2>>, <<1, 2>>>> >>
L2 == << <<9, 10>>, <<1, 2>> >>
L3 == << <<9, 10>>, <<3, 4>>, <<1, 4>> >>
====
