---- MODULE MC_GenToeplitz ----
EXTENDS GenToeplitz
PartsQ == -2..2
PartsS == -1..1
Parts01 == 0..1
ZQ == -1..1
ZC == {0, 1}
====
