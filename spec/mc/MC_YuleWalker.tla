---- MODULE MC_YuleWalker ----
EXTENDS YuleWalker
PartsS == -1..1
PartsQ == -2..2
====
