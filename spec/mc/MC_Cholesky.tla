---- MODULE MC_Cholesky ----
EXTENDS Cholesky
PartsS == -1..1
PartsQ == -2..2
Parts01 == 0..1
====
