---- MODULE MC_Arma ----
EXTENDS Arma
PartsS == -1..1
PartsQ == -2..2
Parts01 == 0..1
====
