---- MODULE MC_Periodogram ----
EXTENDS Periodogram
PartsS == -1..1
PartsQ == -2..2
Parts01 == 0..1
====
