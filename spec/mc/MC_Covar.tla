---- MODULE MC_Covar ----
EXTENDS Covar
PartsS == -1..1
PartsQ == -2..2
Parts01 == 0..1
PartsM == {-1, 1}
====
