---- MODULE MC_Burg ----
EXTENDS Burg
PartsS == -1..1
PartsQ == -2..2
Parts01 == 0..1
PartsM == {-1, 1}
====
