---- MODULE MC_SpectrumImpl ----
EXTENDS SpectrumImpl
NoBugs == {}
BugsD1 == {"D1"}
BugsD2 == {"D2"}
BugsD14 == {"D14"}
AllBugs == {"D1", "D2", "D14"}
DataN2 == <<16, 20>>
====
