---- MODULE MC_Correlation ----
EXTENDS Correlation
PartsS == -1..1
PartsQ == -2..2
====
