---- MODULE MC_PolyRoots ----
EXTENDS PolyRoots
PartsT == -3..3
PartsQ == -2..2
PartsS == -1..1
====
