---- MODULE MC_Toeplitz ----
EXTENDS Toeplitz
PartsQ == -2..2
PartsC == -1..1
ZQ == -1..1
ZC == {0, 1}
====
