---- MODULE MC_LevSteps ----
EXTENDS LevSteps
PartsQ == -2..2
PartsT == -3..3
PartsC == -1..1
PartsCT == -2..2
====
