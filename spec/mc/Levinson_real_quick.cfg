SPECIFICATION Spec
CONSTANTS
  MaxOrder = 4
  R0Set = {1, 2, 3}
  Parts <- PartsQ
  Complex = FALSE
INVARIANT ToeplitzEquation
INVARIANT ProductFormula
INVARIANT ReflectionBound
INVARIANT Stable
INVARIANT MinorCheck
CHECK_DEADLOCK FALSE
