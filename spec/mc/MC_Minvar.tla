---- MODULE MC_Minvar ----
EXTENDS Minvar
PartsS == -1..1
PartsQ == -2..2
Parts01 == 0..1
====
