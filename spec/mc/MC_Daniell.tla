---- MODULE MC_Daniell ----
EXTENDS Daniell
ValsS == 0..2
ValsQ == 0..3
====
