------------------------------ MODULE LinPred ------------------------------
(***************************************************************************)
(* C11: the three representations of a linear predictor                    *)
(*     ac   autocorrelation r_0..r_p (positive definite)                   *)
(*     poly prediction polynomial [1, a_1..a_p] + final error P            *)
(*     rc   reflection coefficients k_1..k_p + zero lag r_0                *)
(* and the conversions between them (linear_prediction.py / levinson.py).  *)
(*                                                                         *)
(* Every positive-definite state of the Levinson stage machine is a        *)
(* consistent triple (r, (A, P), (ref, r0)).  This module defines the      *)
(* *other* directions independently - step-up (rc -> poly), step-down      *)
(* (poly -> rc, Levinson.tla's StepDownRef) and the inverse Levinson       *)
(* recursion (rc -> ac) - and TLC checks that they are mutually inverse    *)
(* and commute on the whole bounded space.  The harness then replays each  *)
(* state into ac2poly, ac2rc, poly2ac, poly2rc, rc2poly, rc2ac.            *)
(***************************************************************************)
EXTENDS Levinson

\* step-up: polynomial of order m from the one of order m-1 and k_m
\*   a_m[j] = a_{m-1}[j] + k_m conj(a_{m-1}[m-j]),  a_m[m] = k_m
RECURSIVE StepUp(_)
StepUp(ks) ==
    IF ks = <<>> THEN <<>>
    ELSE LET m    == Len(ks)
             prev == StepUp(SubSeq(ks, 1, m - 1))
             km   == ks[m]
         IN  [j \in 1..m |-> IF j = m THEN km
                             ELSE CAdd(prev[j], CMul(km, CConj(prev[m - j])))]

\* prediction errors: E_0 = r0, E_m = E_{m-1} (1 - |k_m|^2)
RECURSIVE ErrAfter(_, _)
ErrAfter(ks, r0) == IF ks = <<>> THEN r0
                    ELSE RMul(ErrAfter(SubSeq(ks, 1, Len(ks) - 1), r0), RSub(One, CAbs2(ks[Len(ks)])))

\* inverse Levinson (rc -> ac): r_m = -k_m E_{m-1} - sum_{j=1}^{m-1} a_{m-1}[j] r_{m-j}
RECURSIVE AcFromRc(_, _)
AcFromRc(ks, r0) ==
    IF ks = <<>> THEN <<CReal(r0)>>
    ELSE LET m     == Len(ks)
             lower == SubSeq(ks, 1, m - 1)
             rprev == AcFromRc(lower, r0)              \* r_0 .. r_{m-1} (1-based: rprev[i+1] = r_i)
             aprev == StepUp(lower)
             acc   == CSumSeq([j \in 1..(m - 1) |-> CMul(aprev[j], rprev[(m - j) + 1])])
             rm    == CNeg(CAdd(CScale(ErrAfter(lower, r0), ks[m]), acc))
         IN  Append(rprev, rm)

Pd == status = "pd"

RcToPoly      == Pd => StepUp(ref) = A                       \* rc -> poly (= ac -> rc -> poly)
RcToPolyError == Pd => ErrAfter(ref, r[1][1]) = P
PolyToRc      == Pd => StepDownRef(A) = ref                  \* poly -> rc (= ac -> poly -> rc)
RcToAc        == Pd => AcFromRc(ref, r[1][1]) = r            \* rc -> ac inverts ac -> rc
\* rc -> poly -> rc and poly -> rc -> poly are identities
RoundTripRc   == Pd => StepDownRef(StepUp(ref)) = ref
RoundTripPoly == Pd => StepUp(StepDownRef(A)) = A
=============================================================================
