---------------------------- MODULE CorrMtxEnum ----------------------------
(* Enumerates (N, m, method) and exposes the index matrix of corrmtx as a   *)
(* state variable so that the harness can apply it to arbitrary data.       *)
EXTENDS CorrMtxIdx, Sequences
CONSTANT MaxN
VARIABLES N, m, method, mat
Init == /\ N \in 2..MaxN /\ m \in 1..(MaxN - 1) /\ m < N
        /\ method \in Methods
        /\ mat = [i \in 1..Rows(N, m, method) |-> [j \in 1..(m + 1) |-> IndexEntry(N, m, method, i - 1, j - 1)]]
Next == UNCHANGED <<N, m, method, mat>>
Spec == Init /\ [][Next]_<<N, m, method, mat>>
\* every sample of the covariance rows is a genuine sample; windowed rows hold zeros
NoZeroInCovariance == (method \in {"covariance", "modified"}) =>
                        \A i \in 1..Len(mat) : \A j \in 1..(m + 1) : mat[i][j][1] # 0
Shape == Len(mat) = Rows(N, m, method) /\ \A i \in 1..Len(mat) : Len(mat[i]) = m + 1
=============================================================================
