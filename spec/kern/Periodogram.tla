----------------------------- MODULE Periodogram -----------------------------
(***************************************************************************)
(* C01: the periodogram of windowed data y = x*w,                          *)
(*        P_k = |DFT_NFFT(y)_k|^2 / N,     k = 0..NFFT-1, NFFT >= N.       *)
(*                                                                         *)
(* In the lag domain this is exact for every NFFT:                         *)
(*   P_k = sum_{d=-(N-1)}^{N-1} c_d zeta^{kd},  zeta = exp(-2 pi i/NFFT),  *)
(*   c_d = (1/N) sum_n y[n+d] conj(y[n])  = the *biased autocorrelation*   *)
(*   of y (Correlation.tla!Biased), c_{-d} = conj(c_d).                    *)
(* That identity *is* Wiener-Khinchin: the correlogram with a rectangular  *)
(* lag window, lag N-1 and biased normalisation has the same lag-domain    *)
(* coefficients, hence the same values whenever NFFT >= 2N-1 (no aliasing  *)
(* of the lags).  Parseval: the mean over k of P_k is c_0 = sum|y|^2/N     *)
(* when NFFT >= N.                                                         *)
(*                                                                         *)
(* The data model is Correlation.tla (y is its variable x, picked sample   *)
(* by sample; out.biased holds c_0..c_{N-1}).  For NFFT = 4 (zeta = -i)    *)
(* TLC evaluates the DFT exactly and checks lag-domain = direct            *)
(* evaluation, Parseval, and real symmetry.  A window enters only through  *)
(* y: the harness feeds x = y/w to the real code for each named window.    *)
(***************************************************************************)
EXTENDS Correlation

Zeta4(j) == CMulIPow(COne, 3 * (j % 4))

\* direct evaluation on the 4-point grid (N <= 4 so that NFFT >= N)
Dft4(k) == CSumSeq([n \in 1..Len(x) |-> CMul(x[n], Zeta4(k * (n - 1)))])
Direct4(k) == RMul(RFrac(1, Len(x)), CAbs2(Dft4(k)))

FromLags4(k) ==
    LET pos == CSumFn(LAMBDA d : CMul(out.biased[d], Zeta4(k * (d - 1))), 2, Len(x))
    IN  CAdd(out.biased[1], CAdd(pos, CConj(pos)))

Small4 == IsDone /\ Auto /\ Len(x) <= 4

LagDomainExact == Small4 => \A k \in 0..3 : FromLags4(k) = CReal(Direct4(k))

Parseval4 ==
    Small4 => RMul(RFrac(1, 4), RSumSeq([k \in 1..4 |-> Direct4(k - 1)]))
                = RMul(RFrac(1, Len(x)), RSumSeq([n \in 1..Len(x) |-> CAbs2(x[n])]))

\* real data: P_k = P_{NFFT-k}, so bins 0..NFFT/2 carry everything
RealSymmetric4 ==
    (Small4 /\ ~Complex) => \A k \in 1..3 : Direct4(k) = Direct4(4 - k)
=============================================================================
