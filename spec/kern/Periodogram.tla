----------------------------- MODULE Periodogram -----------------------------
(***************************************************************************)
(* C01: the periodogram of windowed data y = x*w,                          *)
(*        P_k = |DFT_NFFT(y)_k|^2 / N,     k = 0..NFFT-1, NFFT >= N.       *)
(*                                                                         *)
(* In the lag domain this is exact for every NFFT:                         *)
(*   P_k = sum_{d=-(N-1)}^{N-1} c_d zeta^{kd},  zeta = exp(-2 pi i/NFFT),  *)
(*   c_d = (1/N) sum_n y[n+d] conj(y[n])  = the *biased autocorrelation*   *)
(*   of y (Correlation.tla!Biased), c_{-d} = conj(c_d).                    *)
(* That identity *is* Wiener-Khinchin: the correlogram with a rectangular  *)
(* lag window, lag N-1 and biased normalisation has the same lag-domain    *)
(* coefficients, hence the same values whenever NFFT >= 2N-1 (no aliasing  *)
(* of the lags).  Parseval: the mean over k of P_k is c_0 = sum|y|^2/N     *)
(* when NFFT >= N.                                                         *)
(*                                                                         *)
(* The data model is Correlation.tla (y is its variable x, picked sample   *)
(* by sample; out.biased holds c_0..c_{N-1}).  For NFFT = 4 (zeta = -i)    *)
(* TLC evaluates the DFT exactly and checks lag-domain = direct            *)
(* evaluation, Parseval, and real symmetry.  A window enters only through  *)
(* y: the harness feeds x = y/w to the real code for each named window.    *)
(***************************************************************************)
EXTENDS Correlation

Zeta4(j) == CMulIPow(COne, 3 * (j % 4))

\* direct evaluation on the 4-point grid (N <= 4 so that NFFT >= N)
Dft4(k) == CSumSeq([n \in 1..Len(x) |-> CMul(x[n], Zeta4(k * (n - 1)))])
Direct4(k) == RMul(RFrac(1, Len(x)), CAbs2(Dft4(k)))

FromLags4(k) ==
    LET pos == CSumFn(LAMBDA d : CMul(out.biased[d], Zeta4(k * (d - 1))), 2, Len(x))
    IN  CAdd(out.biased[1], CAdd(pos, CConj(pos)))

Small4 == IsDone /\ Auto /\ Len(x) <= 4

LagDomainExact == Small4 => \A k \in 0..3 : FromLags4(k) = CReal(Direct4(k))

Parseval4 ==
    Small4 => RMul(RFrac(1, 4), RSumSeq([k \in 1..4 |-> Direct4(k - 1)]))
                = RMul(RFrac(1, Len(x)), RSumSeq([n \in 1..Len(x) |-> CAbs2(x[n])]))

\* real data: P_k = P_{NFFT-k}, so bins 0..NFFT/2 carry everything
RealSymmetric4 ==
    (Small4 /\ ~Complex) => \A k \in 1..3 : Direct4(k) = Direct4(4 - k)

---------------------------------------------------------------------------
(* C04 / C05 on the kernel, in the lag domain (c_d = biased autocorrelation):  *)
(*  modulation  x_n i^n (= exp(2 pi i m n/NFFT) with m = NFFT/4): c_d -> i^d c_d, *)
(*              hence P_k -> P_{k-m}: a circular shift by exactly m bins        *)
(*  conjugation conj(x): c_d -> conj(c_d), hence P_k -> P_{-k}                 *)
(*  reversal    conj(reverse(x)): c_d unchanged, hence the same spectrum       *)
(*  grid        the NFFT=2 spectrum is the NFFT=4 spectrum at even bins        *)
RawOfSeq(u, k) == CSumSeq([n \in 1..(Len(u) - k) |-> CMul(u[n + k], CConj(u[n]))])
Modulated == [n \in 1..Len(x) |-> CMulIPow(x[n], n - 1)]
Conjugated == [n \in 1..Len(x) |-> CConj(x[n])]
ConjReversed == [n \in 1..Len(x) |-> CConj(x[(Len(x) + 1) - n])]

DoneAuto == IsDone /\ Auto

ModulationTheorem == DoneAuto => \A k \in 0..(Len(x) - 1) : RawOfSeq(Modulated, k) = CMulIPow(RawOfSeq(x, k), k)
ConjugationTheorem == DoneAuto => \A k \in 0..(Len(x) - 1) : RawOfSeq(Conjugated, k) = CConj(RawOfSeq(x, k))
ReversalTheorem == DoneAuto => \A k \in 0..(Len(x) - 1) : RawOfSeq(ConjReversed, k) = RawOfSeq(x, k)

\* spectrum of a lag sequence c (c[1] = lag 0) on the 4-point and 2-point grids
Spec4(c, k) == LET pos == CSumFn(LAMBDA d : CMul(c[d], Zeta4(k * (d - 1))), 2, Len(c))
               IN  CAdd(c[1], CAdd(pos, CConj(pos)))
Zeta2(j) == IF j % 2 = 0 THEN COne ELSE CNeg(COne)
Spec2(c, k) == LET pos == CSumFn(LAMBDA d : CMul(c[d], Zeta2(k * (d - 1))), 2, Len(c))
               IN  CAdd(c[1], CAdd(pos, CConj(pos)))
\* shift covariance and mirror on the 4-point grid, from the theorems above
ShiftByOneBin4 == DoneAuto => LET cm == [d \in 1..Len(x) |-> CScale(RFrac(1, Len(x)), RawOfSeq(Modulated, d - 1))]
                              IN  \A k \in 0..3 : Spec4(cm, k) = Spec4(out.biased, (k + 3) % 4)
Mirror4 == DoneAuto => LET cc == [d \in 1..Len(x) |-> CScale(RFrac(1, Len(x)), RawOfSeq(Conjugated, d - 1))]
                       IN  \A k \in 0..3 : Spec4(cc, k) = Spec4(out.biased, (4 - k) % 4)
GridConsistency24 == DoneAuto => \A k \in 0..1 : Spec2(out.biased, k) = Spec4(out.biased, 2 * k)
=============================================================================
