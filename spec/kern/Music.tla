-------------------------------- MODULE Music --------------------------------
(***************************************************************************)
(* C17, exact small scope: MUSIC on a noiseless sum of K complex           *)
(* exponentials on the 4-point grid, x[n] = sum_k a_k i^(m_k n).           *)
(*                                                                         *)
(* Every row of the forward-backward data matrix of order P is a           *)
(* combination of the K row vectors s_k = [1, z_k^-1, .., z_k^-(P-1)],     *)
(* z_k = i^(m_k).  The noise subspace is the null space {v : S v = 0}; its *)
(* orthogonal projector                                                    *)
(*        Pn = I - S^H (S S^H)^-1 S                                        *)
(* does not depend on which orthonormal basis an SVD returns, so the       *)
(* denominator of the pseudo-spectrum is an exact Gaussian-rational        *)
(* quantity:   D(j) = sum_noise |sum_n v[n] i^(jn)|^2 = q_j^H Pn q_j,       *)
(* q_j[n] = i^(-jn), computed here as  P - (S q_j)^H y  with  (S S^H) y =  *)
(* S q_j solved by exact Gaussian elimination (LinAlg.tla).                *)
(*                                                                         *)
(* eigen() returns 1/D re-ordered to the centred layout:                   *)
(* entry b (bin b - 2 of the 4-point grid) holds 1/D((2 - b) mod 4).       *)
(*                                                                         *)
(* Envelope (the tone clause of C17, exactly): the denominator vanishes    *)
(* at the tone bins and only there, is positive and at most P elsewhere,   *)
(* and sums to 4 (P - K) over the grid (Parseval, P <= 4).                 *)
(***************************************************************************)
EXTENDS LinAlg, TLC, FiniteSets

CONSTANTS MaxP

VARIABLES P, tones, den      \* tones: set of bins in 0..3; den[j+1] = D(j) (a rational)

vars == <<P, tones, den>>

RECURSIVE SetToSeq(_)
SetToSeq(s) == IF s = {} THEN <<>> ELSE LET m == CHOOSE x \in s : \A y \in s : x <= y IN <<m>> \o SetToSeq(s \ {m})

IPow(k) == CMulIPow(COne, k % 4)

\* S: K x P, S[k][n+1] = z_k^(-n) = i^(-m_k n)
SMat(order, ts) == LET sq == SetToSeq(ts)
                   IN  [k \in 1..Len(sq) |-> [n1 \in 1..order |-> IPow(4 - ((sq[k] * (n1 - 1)) % 4))]]
QVec(order, j) == [n1 \in 1..order |-> IPow(4 - ((j * (n1 - 1)) % 4))]

Denominator(order, ts, j) ==
    LET S  == SMat(order, ts)
        q  == QVec(order, j)
        Sq == MatVec(S, q)
        G  == MatMul(S, ConjT(S))
        y  == Gauss(G, Sq)
    IN  IF ts = {} THEN RInt(order)
        ELSE IF ~y.ok THEN OVF
        ELSE RSub(RInt(order), Dot(Sq, y.x)[1])

Init == /\ P \in 2..MaxP
        /\ tones \in {t \in SUBSET (0..3) : Cardinality(t) < P /\ Cardinality(t) >= 1}
        /\ den = [j1 \in 1..4 |-> Denominator(P, tones, j1 - 1)]

Next == UNCHANGED vars
Spec == Init /\ [][Next]_vars

---------------------------------------------------------------------------
K == Cardinality(tones)
\* centred layout of the returned pseudo-spectrum: entry b <-> bin b - 2, value 1 / D((2 - b) mod 4)
DenAtBin(m) == den[((4 - m) % 4) + 1]          \* denominator at the physical bin m (mod 4)

NoOverflow == \A j \in 1..4 : ~IsOvf(den[j])
PeaksExactlyAtTones == \A m \in 0..3 : RIsZero(DenAtBin(m)) <=> m \in tones
PositiveElsewhere == \A m \in 0..3 : m \notin tones => RPos(DenAtBin(m))
AtMostP == \A j \in 1..4 : RLe(den[j], RInt(P))
GridSum == RSumSeq(den) = RInt(4 * (P - K))
\* the imaginary part of the quadratic form vanishes (Pn is Hermitian)
=============================================================================
