------------------------------ MODULE MultiTaper ------------------------------
(***************************************************************************)
(* C19 (exact part): pmtm / MultiTapering with caller-supplied tapers.     *)
(* The routine does not require the tapers to be Slepian sequences, so the *)
(* specification uses small rational tapers v (N x K) with eigenvalues     *)
(* lambda and evaluates, on the 4-point grid (zeta = -i is exact):         *)
(*   eigenspectra  S_i[k] = sum_n v_i[n] x[n] zeta^{kn}    (NFFT = 4 >= N) *)
(*   weights       unity: 1;  eigen: lambda_i / (i+1), i = 0..K-1          *)
(*   class output  P[k] = (1/K) sum_i w_i |S_i[k]|^2  (two-sided)          *)
(* The data x are picked sample by sample.  TLC checks that the output is  *)
(* real and non-negative and that its mean over k equals the weighted      *)
(* taper energies (Parseval per taper).                                    *)
(***************************************************************************)
EXTENDS CQ, TLC

CONSTANTS N, Parts, Complex,
          Tapers,      \* sequence of K tapers, each a sequence of N rationals
          Lambdas      \* sequence of K rationals

VARIABLES x, phase, out

vars == <<x, phase, out>>

K == Len(Tapers)
Vals == IF Complex THEN {CGauss(a, b) : a \in Parts, b \in Parts} ELSE {CInt(a) : a \in Parts}

Init == x = <<>> /\ phase = "x" /\ out = <<>>
PickX == /\ phase = "x" /\ Len(x) < N
         /\ \E v \in Vals : x' = Append(x, v)
         /\ UNCHANGED <<phase, out>>

Zeta4(j) == CMulIPow(COne, 3 * (j % 4))
Tapered(i, n) == CScale(Tapers[i][n], x[n])
Eig(i, k) == CSumSeq([n \in 1..N |-> CMul(Tapered(i, n), Zeta4(k * (n - 1)))])

Weight(method, i) == IF method = "unity" THEN One ELSE RDiv(Lambdas[i], RInt(i))     \* i is 1-based: lambda_i/(index+1)

Psd(method, k) == RMul(RFrac(1, K), RSumSeq([i \in 1..K |-> RMul(Weight(method, i), CAbs2(Eig(i, k)))]))

Done == /\ phase = "x" /\ Len(x) = N
        /\ phase' = "done"
        /\ out' = [eig   |-> [i \in 1..K |-> [k \in 1..4 |-> Eig(i, k - 1)]],
                   unity |-> [k \in 1..4 |-> Psd("unity", k - 1)],
                   eigen |-> [k \in 1..4 |-> Psd("eigen", k - 1)],
                   w_eigen |-> [i \in 1..K |-> Weight("eigen", i)]]
        /\ UNCHANGED x

Next == PickX \/ Done
Spec == Init /\ [][Next]_vars

IsDone == phase = "done"

NonNegative == IsDone => \A k \in 1..4 : ~RNegative(out.unity[k]) /\ ~RNegative(out.eigen[k])

\* Parseval per taper: mean_k |S_i[k]|^2 = sum_n |v_i[n] x[n]|^2   (NFFT = 4 >= N)
ParsevalPerTaper ==
    IsDone => \A i \in 1..K :
        RMul(RFrac(1, 4), RSumSeq([k \in 1..4 |-> CAbs2(out.eig[i][k])]))
          = RSumSeq([n \in 1..N |-> CAbs2(Tapered(i, n))])

\* real data: symmetric two-sided output, so doubling the first half loses nothing
RealSymmetric == (IsDone /\ ~Complex) => (out.unity[2] = out.unity[4] /\ out.eigen[2] = out.eigen[4])
=============================================================================
