-------------------------------- MODULE Minvar --------------------------------
(***************************************************************************)
(* C16: the minimum-variance (Capon) spectrum.                             *)
(*   P_MV(f) = T / ( e(f)^H R^-1 e(f) ),   e(f)_n = exp(+2 pi i f n),      *)
(*   R the m x m Hermitian Toeplitz autocorrelation matrix implied by the  *)
(*   order m-1 Burg model (R[i][j] = r_{i-j}, r = inverse Levinson of the  *)
(*   reflection coefficients with r_0 = mean |x|^2).                       *)
(*                                                                         *)
(* On the grid f = k/NFFT the quadratic form is a trigonometric polynomial *)
(*   sum_{d=-(m-1)}^{m-1} c_d zeta^{kd},  zeta = exp(-2 pi i / NFFT),      *)
(*   c_d = sum_i Rinv[i+d][i]  (d >= 0),  c_{-d} = conj(c_d):              *)
(* exact lag-domain coefficients (the harness only evaluates zeta).        *)
(*                                                                         *)
(* Mechanism (minvar.py): Musicus' formula                                 *)
(*   psi_d = (1/P) sum_{i=0}^{m-1-d} (m - d - 2i) conj(a_i) a_{i+d}.       *)
(* TLC checks  psi = c  on the whole bounded space (envelope = mechanism), *)
(* and positivity of the quadratic form on the NFFT = 4 grid.              *)
(* The Burg stage machine is reused as is (EXTENDS Burg).                  *)
(***************************************************************************)
EXTENDS Burg, LinAlg

VARIABLE mv      \* <<>> or [psi, quad]: Musicus coefficients and coefficients from the exact inverse

mvars == <<x, phase, a, ref, rho, ef, eb, den, temp, status, optres, rhoprev, mv>>

MInit == Init /\ mv = <<>>

M == Len(a) + 1                       \* dimension of R
AR(j) == IF j = 0 THEN COne ELSE a[j]  \* [1, a_1 .. a_{m-1}]

Musicus(d) == CScale(RInv(rho),
                 CSumSeq([i \in 1..(M - d) |->
                            CScale(RInt((M - d) - 2 * (i - 1)), CMul(CConj(AR(i - 1)), AR((i - 1) + d)))]))

R0 == RMul(RFrac(1, Len(x)), Energy(x))
AcSeq == AcOfRc(ref, R0)                                  \* r_0 .. r_{m-1}
RMatOf(ac) == [i \in 1..M |-> [j \in 1..M |-> IF i >= j THEN ac[(i - j) + 1] ELSE CConj(ac[(j - i) + 1])]]
Unit(k) == [i \in 1..M |-> IF i = k THEN COne ELSE CZero]
InvColsOf(rm) == [k \in 1..M |-> Gauss(rm, Unit(k))]      \* column k of R^-1
\* (inv is passed explicitly so that TLC inverts R once per state)
InvOk(inv) == \A k \in 1..M : inv[k].ok
Quad(inv, d) == CSumSeq([i \in 1..(M - d) |-> inv[i].x[i + d]])     \* sum_i Rinv[i+d][i]

Compute == /\ phase = "run" /\ status = "ok" /\ Len(a) >= 1
           /\ phase' = "mv"
           /\ LET ac  == AcSeq
                  rm  == RMatOf(ac)
                  inv == InvColsOf(rm) IN
              mv' = IF InvOk(inv) THEN [ok |-> TRUE,
                                        psi  |-> [d \in 1..M |-> Musicus(d - 1)],
                                        quad |-> [d \in 1..M |-> Quad(inv, d - 1)]]
                    ELSE [ok |-> FALSE, psi |-> <<>>, quad |-> <<>>]
           /\ UNCHANGED <<x, a, ref, rho, ef, eb, den, temp, status, optres, rhoprev>>

MNext == (Next /\ UNCHANGED mv) \/ Compute
MSpec == MInit /\ [][MNext]_mvars

Computed == phase = "mv" /\ mv.ok /\ ~CSeqBad(mv.psi) /\ ~CSeqBad(mv.quad)

\* the mechanism (Musicus) computes the quadratic form of the definition
MusicusIsQuadraticForm == Computed => mv.psi = mv.quad

\* zero-lag coefficient = trace(R^-1): real and positive
TracePositive == Computed => (CIsReal(mv.quad[1]) /\ RPos(mv.quad[1][1]))

\* NFFT = 4 (zeta = -i exact): the quadratic form is real and positive at every bin
Zeta4(j) == CMulIPow(COne, 3 * (j % 4))
Form4(k) == LET pos == CSumFn(LAMBDA d : CMul(mv.quad[d], Zeta4(k * (d - 1))), 2, M)
            IN  CAdd(mv.quad[1], CAdd(pos, CConj(pos)))
PositiveOnGrid4 == Computed => \A k \in 0..3 : CIsReal(Form4(k)) /\ RPos(Form4(k)[1])
=============================================================================
