-------------------------------- MODULE Covar --------------------------------
(***************************************************************************)
(* C14: covariance and modified-covariance AR estimation as least-squares  *)
(* problems, solved exactly.                                               *)
(*                                                                         *)
(*   covariance, order p:   minimise sum_{n=p}^{N-1} |x[n] + sum_j a_j x[n-j]|^2   *)
(*   modified covariance:   the same plus the backward errors              *)
(*                          sum_{n=p}^{N-1} |x[n-p] + sum_j conj(a_j) x[n-p+j]|^2  *)
(* written with the data matrices of corrmtx (CorrMtxIdx.tla): first column *)
(* X1 = the predicted samples, remaining columns Xc = the regressors;       *)
(* a solves (Xc^H Xc) a = -Xc^H X1 (exact Gaussian elimination, LinAlg.tla) *)
(* and the minimum is e = X1^H X1 + X1^H Xc a.                              *)
(*                                                                         *)
(* Envelope clauses checked by TLC: the residual is orthogonal to every    *)
(* regressor, the minimum equals the squared norm of the residual, and for *)
(* a noiseless sum of p exponentials on the unit circle (Mode = "expo")    *)
(* the polynomial is prod(1 - z_j z^-1) with zero error.                   *)
(***************************************************************************)
EXTENDS LinAlg, CorrMtxIdx, TLC

CONSTANTS MaxN, MinN, MaxP, Parts, Complex,
          Mode          \* "free": x picked sample by sample; "expo": x = sum A_j z_j^n

VARIABLES x, phase, sol, zs     \* zs: chosen exponentials (expo mode): sequence of <<power of i, amplitude>>

vars == <<x, phase, sol, zs>>

Vals == IF Complex THEN {CGauss(p, q) : p \in Parts, q \in Parts} ELSE {CInt(p) : p \in Parts}
Amps == Vals \ {CZero}

Init == x = <<>> /\ phase = "x" /\ sol = <<>> /\ zs = <<>>

PickX == /\ Mode = "free" /\ phase = "x" /\ Len(x) < MaxN
         /\ \E v \in Vals : x' = Append(x, v)
         /\ UNCHANGED <<phase, sol, zs>>

\* expo mode: choose distinct powers e of i (z = i^e) in increasing order with amplitudes
PickZ == /\ Mode = "expo" /\ phase = "x" /\ Len(zs) < MaxP
         /\ \E e \in (IF Complex THEN 0..3 ELSE {0, 2}), amp \in Amps :
               /\ \A k \in 1..Len(zs) : zs[k][1] < e
               /\ zs' = Append(zs, <<e, amp>>)
         /\ UNCHANGED <<x, phase, sol>>
Synth(n) == CSumSeq([k \in 1..Len(zs) |-> CMulIPow(zs[k][2], zs[k][1] * n)])
BuildX == /\ Mode = "expo" /\ phase = "x" /\ Len(zs) >= 1 /\ x = <<>>
          /\ \E len \in MinN..MaxN : len >= 2 * Len(zs) /\ x' = [n \in 1..len |-> Synth(n - 1)]
          /\ UNCHANGED <<phase, sol, zs>>

N == Len(x)

Entry(m, method, i, j) ==
    LET e == IndexEntry(N, m, method, i, j)
    IN  IF e[1] = 0 THEN CZero ELSE IF e[2] THEN CConj(x[e[1]]) ELSE x[e[1]]
DataMatrix(m, method) == [i \in 1..Rows(N, m, method) |-> [j \in 1..(m + 1) |-> Entry(m, method, i - 1, j - 1)]]

\* least squares: returns [ok, a, e, resid]
LS(m, method) ==
    LET X   == DataMatrix(m, method)
        X1  == Column(X, 1)
        Xc  == DropCol1(X)
        XcH == ConjT(Xc)
        G   == MatMul(XcH, Xc)
        rhs == [i \in 1..m |-> CNeg(MatVec(XcH, X1)[i])]
        g   == Gauss(G, rhs)
    IN  IF ~g.ok THEN [ok |-> FALSE, a |-> <<>>, e |-> Zero, orth |-> <<>>]
        ELSE LET res == [i \in 1..Len(X1) |-> CAdd(X1[i], MatVec(Xc, g.x)[i])]
             IN  [ok   |-> TRUE,
                  a    |-> g.x,
                  e    |-> CAdd(Dot(X1, X1), Dot(X1, MatVec(Xc, g.x)))[1],   \* real part: the minimum
                  orth |-> MatVec(XcH, res),                                   \* must vanish
                  rn   |-> Dot(res, res)]                                      \* ||residual||^2

Orders == {p \in 1..MaxP : N - p >= p}

Done == /\ phase = "x" /\ N >= MinN /\ (Mode = "expo" => x # <<>>)
        /\ phase' = "done"
        /\ sol' = [p \in 1..MaxP |-> IF p \in Orders
                                      THEN [cov |-> LS(p, "covariance"), mod |-> LS(p, "modified")]
                                      ELSE [cov |-> [ok |-> FALSE], mod |-> [ok |-> FALSE]]]
        /\ UNCHANGED <<x, zs>>

Next == PickX \/ PickZ \/ BuildX \/ Done
Spec == Init /\ [][Next]_vars

IsDone == phase = "done"

ResidualOrthogonal ==
    IsDone => \A p \in Orders :
        /\ (sol[p].cov.ok => \A i \in 1..p : CIsZero(sol[p].cov.orth[i]))
        /\ (sol[p].mod.ok => \A i \in 1..p : CIsZero(sol[p].mod.orth[i]))

ErrorIsMinimum ==
    IsDone => \A p \in Orders :
        /\ (sol[p].cov.ok => sol[p].cov.rn = CReal(sol[p].cov.e))
        /\ (sol[p].mod.ok => sol[p].mod.rn = CReal(sol[p].mod.e))

\* coefficients of prod_j (1 - z_j z^-1), z_j = i^{e_j}
RECURSIVE PolyOf(_)
PolyOf(s) == IF s = <<>> THEN <<>>
             ELSE LET prev == PolyOf(SubSeq(s, 1, Len(s) - 1))
                      z    == CMulIPow(COne, s[Len(s)][1])
                      m    == Len(prev) + 1
                      c(j) == IF j = 0 THEN COne ELSE IF j <= Len(prev) THEN prev[j] ELSE CZero
                  IN  [j \in 1..m |-> CSub(c(j), CMul(z, c(j - 1)))]

ExactRecovery ==
    (IsDone /\ Mode = "expo" /\ Len(zs) \in Orders) =>
        LET p == Len(zs) IN
        /\ (sol[p].cov.ok => (sol[p].cov.a = PolyOf(zs) /\ RIsZero(sol[p].cov.e)))
        /\ (sol[p].mod.ok => (sol[p].mod.a = PolyOf(zs) /\ RIsZero(sol[p].mod.e)))
=============================================================================
