--------------------------------- MODULE Arma ---------------------------------
(***************************************************************************)
(* C15, exact part.                                                        *)
(*  ma(x, Q, M): Durbin's method = two chained Yule-Walker fits            *)
(*     [1, a] = order-M Yule-Walker model of x (biased autocorrelation),   *)
(*     b      = order-Q Yule-Walker model of the sequence [1, a],          *)
(*     rho    = variance of the first fit.                                 *)
(*  arma_estimate(x, P, Q, lag), AR part for P = Q: least-squares solution *)
(*     of the modified Yule-Walker equations                               *)
(*         R[n] + sum_j a_j R[n-j] = 0,   n = P+1 .. lag,                  *)
(*     over the *unbiased* autocorrelation lags (covariance-method fit of  *)
(*     the sequence R[1..lag]).                                            *)
(* Data come from Correlation.tla (x picked sample by sample); the action  *)
(* Fit stores every admissible (Q, M) / (P, lag) result in `fit`.          *)
(***************************************************************************)
EXTENDS Correlation, LevFn, LinAlg

CONSTANTS MaxMaM, MaxLag

VARIABLE fit

avars == <<x, y, phase, out, fit>>

BiasedOfSeq(s, maxlag) == [k \in 1..(maxlag + 1) |->
    CScale(RFrac(1, Len(s)), CSumSeq([n \in 1..(Len(s) - (k - 1)) |-> CMul(s[n + (k - 1)], CConj(s[n]))]))]

MaFit(Q, M) ==
    LET s1 == Lev(out.biased, M)
        a1 == <<COne>> \o s1.A
        s2 == Lev(BiasedOfSeq(a1, Q), Q)
    IN  [Q |-> Q, M |-> M, ma |-> s2.A, rho |-> s1.P, k2 |-> s2.ref, p2 |-> s2.P]

\* modified Yule-Walker least squares on Y = unbiased R[1..lag] (0-based YY[n] = R[n+1])
ArFit(P, lag) ==
    LET YY(n) == out.unbiased[n + 2]                                  \* n = 0..lag-1
        G == [i \in 1..P |-> [j \in 1..P |->
                CSumFn(LAMBDA n : CMul(CConj(YY(n - i)), YY(n - j)), P, lag - 1)]]
        rhs == [i \in 1..P |-> CNeg(CSumFn(LAMBDA n : CMul(CConj(YY(n - i)), YY(n)), P, lag - 1))]
        g == Gauss(G, rhs)
    IN  [P |-> P, lag |-> lag, ok |-> g.ok, ar |-> g.x]

MaPairs == {<<Q, M>> \in (1..MaxMaM) \X (1..MaxMaM) : Q < M /\ M < NN}
ArPairs == {<<P, lag>> \in (1..2) \X (1..MaxLag) : lag >= 2 * P /\ lag < NN}

AInit == Init /\ fit = <<>>

Fit == /\ phase = "done" /\ Auto /\ NN >= 3 /\ ~RIsZero(out.biased[1][1])
       /\ phase' = "fitted"
       /\ fit' = [ma |-> {MaFit(qm[1], qm[2]) : qm \in MaPairs},
                  ar |-> {ArFit(pl[1], pl[2]) : pl \in ArPairs}]
       /\ UNCHANGED <<x, y, out>>

ANext == (Next /\ UNCHANGED fit) \/ Fit
ASpec == AInit /\ [][ANext]_avars

Fitted == phase = "fitted"

\* Q coefficients, invertible (all reflection coefficients of the second fit < 1 in modulus,
\* i.e. zeros inside the unit circle), positive variance
MaIsValid ==
    Fitted => \A f \in fit.ma :
        (~CSeqBad(f.ma) /\ ~IsOvf(f.rho)) =>
            /\ Len(f.ma) = f.Q
            /\ RPos(f.rho)
            /\ \A i \in 1..f.Q : LET m == CAbs2(f.k2[i]) IN IsOvf(m) \/ RLt(m, One)

ArHasPCoefficients == Fitted => \A f \in fit.ar : f.ok => Len(f.ar) = f.P
=============================================================================
