------------------------------ MODULE Arma2Psd ------------------------------
(***************************************************************************)
(* C08 (third clause): arma2psd(A, B, rho, T, NFFT) equals                 *)
(*      (rho / T) * |B(f_k)|^2 / |A(f_k)|^2      on the grid f_k = k/NFFT  *)
(* with A(f) = 1 + sum a_m e^{-2 pi i f m},  B likewise.                   *)
(*                                                                         *)
(* Roots of unity are not rational, so the specification describes each    *)
(* squared magnitude in the *lag domain*, which is exact:                  *)
(*      |A(f_k)|^2 = sum_{d=-p..p} cA_d zeta^{k d},   zeta = e^{-2 pi i/NFFT}*)
(*      cA_d = sum_m a_m conj(a_{m-d})   (a_0 = 1)                         *)
(* The harness only evaluates zeta^{kd} in floating point.  For NFFT = 4,  *)
(* zeta = -i is a Gaussian rational and TLC checks lag-domain = direct     *)
(* evaluation, positivity and Hermitian symmetry on the whole space.       *)
(* Coefficients are picked one per step (pick = A then B).                 *)
(***************************************************************************)
EXTENDS CQ, TLC

CONSTANTS MaxP, MaxQ, Parts, Complex, Rhos, Ts   \* Rhos, Ts: sets of <<num, den>>

VARIABLES A, B, rho, T, phase,   \* phase: "A" | "B" | "done"
          out                     \* the exact lag-domain description, filled by Done

vars == <<A, B, rho, T, phase, out>>

Vals == IF Complex THEN {CGauss(a, b) : a \in Parts, b \in Parts} ELSE {CInt(a) : a \in Parts}

Init == A = <<>> /\ B = <<>> /\ phase = "A" /\ rho \in Rhos /\ T \in Ts /\ out = <<>>

PickA == /\ phase = "A" /\ Len(A) < MaxP
         /\ \E v \in Vals : A' = Append(A, v)
         /\ UNCHANGED <<B, rho, T, phase, out>>
ToB   == /\ phase = "A" /\ phase' = "B" /\ UNCHANGED <<A, B, rho, T, out>>
PickB == /\ phase = "B" /\ Len(B) < MaxQ
         /\ \E v \in Vals : B' = Append(B, v)
         /\ UNCHANGED <<A, rho, T, phase, out>>


\* polynomial coefficient m (0-based) of [1, c_1 .. c_p]
Coef(c, m) == IF m = 0 THEN COne ELSE IF m <= Len(c) THEN c[m] ELSE CZero

\* lag-domain coefficient d >= 0 of |C(f)|^2; the coefficient at -d is its conjugate
LagCoef(c, d) == CSumSeq([m \in 1..(Len(c) + 1 - d) |-> CMul(Coef(c, (m - 1) + d), CConj(Coef(c, m - 1)))])

\* what the harness needs: lag coefficients 0..p of numerator and denominator, and rho/T
DenLags == [d \in 1..(Len(A) + 1) |-> LagCoef(A, d - 1)]
NumLags == [d \in 1..(Len(B) + 1) |-> LagCoef(B, d - 1)]
Gain == RDiv(rho, T)

Done  == /\ phase = "B" /\ phase' = "done"
         /\ out' = <<DenLags, NumLags, Gain>>
         /\ UNCHANGED <<A, B, rho, T>>

Next == PickA \/ ToB \/ PickB \/ Done
Spec == Init /\ [][Next]_vars

---------------------------------------------------------------------------
\* NFFT = 4: zeta^j = (-i)^j = i^(3j) is exact
Zeta4(j) == CMulIPow(COne, 3 * (j % 4))
Direct4(c, k) == CAbs2(CSumSeq([m \in 1..(Len(c) + 1) |-> CMul(Coef(c, m - 1), Zeta4(k * (m - 1)))]))
FromLags4(c, k) ==
    LET pos == CSumSeq([d \in 1..Len(c) |-> CMul(LagCoef(c, d), Zeta4(k * d))])
    IN  CAdd(LagCoef(c, 0), CAdd(pos, CConj(pos)))

LagDomainExact ==
    \A k \in 0..3 : /\ FromLags4(A, k) = CReal(Direct4(A, k))
                    /\ FromLags4(B, k) = CReal(Direct4(B, k))

ZeroLagPositive == RPos(LagCoef(A, 0)[1]) /\ CIsReal(LagCoef(A, 0))

\* the model spectrum is real and non-negative wherever the denominator does not vanish
NonNegative4 ==
    \A k \in 0..3 : ~RNegative(Direct4(A, k)) /\ ~RNegative(Direct4(B, k))
=============================================================================
