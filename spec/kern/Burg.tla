-------------------------------- MODULE Burg --------------------------------
(***************************************************************************)
(* C13: Burg's method (burg.py, arburg) as a stage machine in exact        *)
(* complex-rational arithmetic.                                            *)
(*                                                                         *)
(* Mechanism (shaped like arburg): forward / backward error arrays ef, eb  *)
(* updated in place, the denominator summed over the current error arrays  *)
(*      den <- sum_{j>k} |ef[j]|^2 + |eb[j-1]|^2                           *)
(* (since the repair d8be8e1; until then Marple's order recursion          *)
(*      den <- (1-|k|^2) den - |ef[k]|^2 - |eb[N-1]|^2,                    *)
(* which is the same number in exact arithmetic - invariant                *)
(* MarpleRecursionIsExact - and loses every digit in floating point when   *)
(* |k| approaches one), the Levinson step-up of the AR vector,             *)
(* rho <- (1-|k|^2) rho.                                                   *)
(*                                                                         *)
(* Envelope (C13), evaluated from the *definition*, not the recursion:     *)
(*   - the errors are those of the prediction-error filter [1, a] applied  *)
(*     to the data:  f_m[n] = sum_j a_m[j] x[n-j],                         *)
(*                   b_m[n] = sum_j conj(a_m[j]) x[n-m+j]                  *)
(*   - each k_m minimises sum_{n=m}^{N-1} |f_{m-1}[n] + k b_{m-1}[n-1]|^2  *)
(*     + |b_{m-1}[n-1] + conj(k) f_{m-1}[n]|^2  (first-order condition     *)
(*     2 sum f conj(b) + k sum(|f|^2+|b|^2) = 0, an exact identity)        *)
(*   - |k_m| <= 1, step-up(ref) = a, rho = mean|x|^2 prod(1-|k_i|^2),      *)
(*     rho non-increasing; nesting is structural (one stage per action).   *)
(***************************************************************************)
EXTENDS LevFn, TLC

CONSTANTS MinN, MaxN, MaxOrder, Parts, Complex

VARIABLES x, phase,          \* phase: "x" | "run"
          a, ref, rho, ef, eb, den, temp, status, optres, rhoprev

vars == <<x, phase, a, ref, rho, ef, eb, den, temp, status, optres, rhoprev>>

Vals == IF Complex THEN {CGauss(p, q) : p \in Parts, q \in Parts} ELSE {CInt(p) : p \in Parts}

Init == /\ x = <<>> /\ phase = "x"
        /\ a = <<>> /\ ref = <<>> /\ rho = Zero /\ ef = <<>> /\ eb = <<>>
        /\ den = Zero /\ temp = One /\ status = "input" /\ optres = CZero /\ rhoprev = Zero

PickX == /\ phase = "x" /\ Len(x) < MaxN
         /\ \E v \in Vals : x' = Append(x, v)
         /\ UNCHANGED <<phase, a, ref, rho, ef, eb, den, temp, status, optres, rhoprev>>

Energy(s) == RSumSeq([n \in 1..Len(s) |-> CAbs2(s[n])])

Start == /\ phase = "x" /\ Len(x) >= MinN
         /\ ~RIsZero(Energy(x))
         /\ phase' = "run"
         /\ rho' = RMul(RFrac(1, Len(x)), Energy(x))
         /\ rhoprev' = rho'
         /\ den' = RMul(RInt(2), Energy(x))
         /\ ef' = x /\ eb' = x
         /\ temp' = One
         /\ status' = "ok"
         /\ UNCHANGED <<x, a, ref, optres>>

N == Len(x)

\* ---- definitional prediction errors of the current model (order m = Len(a))
Coef(c, j) == IF j = 0 THEN COne ELSE c[j]
FwdErr(c, n) == CSumSeq([j \in 1..(Len(c) + 1) |-> CMul(Coef(c, j - 1), x[(n - (j - 1)) + 1])])          \* n 0-based, n >= m
BwdErr(c, n) == CSumSeq([j \in 1..(Len(c) + 1) |-> CMul(CConj(Coef(c, j - 1)), x[((n - Len(c)) + (j - 1)) + 1])])

\* one stage of arburg (k = Len(a), 0-based loop index)
Stage ==
    LET k    == Len(a)
        num  == CSumFn(LAMBDA j : CMul(ef[j], CConj(eb[j - 1])), k + 2, N)   \* 1-based j = k+2..N
        nden == RSumFn(LAMBDA j : RAdd(CAbs2(ef[j]), CAbs2(eb[j - 1])), k + 2, N)
        kp   == CNeg(CScale(RDiv(RInt(2), nden), num))
        ntmp == RSub(One, CAbs2(kp))
        nrho == RMul(ntmp, rho)
        \* definition-based quantities for the optimality condition
        fsum == CSumFn(LAMBDA n : CMul(FwdErr(a, n), CConj(BwdErr(a, n - 1))), k + 1, N - 1)
        dsum == RSumFn(LAMBDA n : RAdd(CAbs2(FwdErr(a, n)), CAbs2(BwdErr(a, n - 1))), k + 1, N - 1)
    IN  IF RIsZero(nden) \/ IsOvf(nden)
        THEN /\ status' = IF IsOvf(nden) THEN "ovf" ELSE "degenerate"
             /\ UNCHANGED <<x, phase, a, ref, rho, ef, eb, den, temp, optres, rhoprev>>
        ELSE /\ den' = nden
             /\ temp' = ntmp
             /\ rhoprev' = rho
             /\ rho' = nrho
             /\ a' = LevUp(a, kp)
             /\ ref' = Append(ref, kp)
             /\ ef' = [j \in 1..N |-> IF j >= k + 2 THEN CAdd(ef[j], CMul(kp, eb[j - 1])) ELSE ef[j]]
             /\ eb' = [j \in 1..N |-> IF j >= k + 2 THEN CAdd(eb[j - 1], CMul(CConj(kp), ef[j])) ELSE eb[j]]
             /\ optres' = CAdd(CScale(RInt(2), fsum), CScale(dsum, kp))
             /\ status' = IF IsOvf(nrho) \/ CSeqBad(a') \/ CSeqBad(ef') \/ CSeqBad(eb') THEN "ovf"
                          ELSE IF ~RPos(nrho) THEN "degenerate" ELSE "ok"
             /\ UNCHANGED <<x, phase>>

Extend == /\ phase = "run" /\ status = "ok"
          /\ Len(a) < MaxOrder /\ Len(a) < N - 1
          /\ Stage

Next == PickX \/ Start \/ Extend
Spec == Init /\ [][Next]_vars

Running == phase = "run" /\ status = "ok"

---------------------------------------------------------------------------
ReflectionAtMostOne == Running => \A i \in 1..Len(ref) : LET m == CAbs2(ref[i]) IN IsOvf(m) \/ RLe(m, One)

StepUpIsAr == Running => CSeqEqOrOvf(StepUpSeq(ref), a)

VarianceFormula ==
    Running => REqOrOvf(rho, RMul(RMul(RFrac(1, N), Energy(x)),
                                  RProdSeq([i \in 1..Len(ref) |-> RSub(One, CAbs2(ref[i]))])))

VarianceNonIncreasing == Running => (IsOvf(rho) \/ IsOvf(rhoprev) \/ RLe(rho, rhoprev))

\* the in-place arrays hold the definitional errors of the current model
ErrorsAreFilterOutputs ==
    Running => \A n \in Len(a)..(N - 1) :
                  /\ CEqOrOvf(ef[n + 1], FwdErr(a, n))
                  /\ CEqOrOvf(eb[n + 1], BwdErr(a, n))

\* the denominator of the next stage (summed over the mechanism arrays) is the forward+backward energy by definition
DenominatorIsEnergy ==
    (Running /\ Len(a) < N - 1) =>
        REqOrOvf(RSumFn(LAMBDA j : RAdd(CAbs2(ef[j]), CAbs2(eb[j - 1])), Len(a) + 2, N),
                 RSumFn(LAMBDA n : RAdd(CAbs2(FwdErr(a, n)), CAbs2(BwdErr(a, n - 1))), Len(a) + 1, N - 1))

\* Marple's order recursion gives the same number in exact arithmetic (it is an identity, not an approximation:
\* the defect repaired by d8be8e1 was purely one of floating point cancellation in 1-|k|^2)
MarpleRecursionIsExact ==
    (Running /\ Len(a) < N - 1) =>
        REqOrOvf(RSub(RSub(RMul(temp, den), CAbs2(ef[Len(a) + 1])), CAbs2(eb[N])),
                 RSumFn(LAMBDA j : RAdd(CAbs2(ef[j]), CAbs2(eb[j - 1])), Len(a) + 2, N))

\* each k is the minimiser of the stage's forward+backward error energy
StageOptimal == Running => (CBad(optres) \/ CIsZero(optres))
=============================================================================
