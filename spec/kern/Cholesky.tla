------------------------------ MODULE Cholesky ------------------------------
(***************************************************************************)
(* CHOLESKY(A, b): solve A x = b for Hermitian positive-definite A.        *)
(* The specification *constructs* admissible systems: it picks a lower     *)
(* triangular factor L with positive diagonal and a solution x (one entry  *)
(* per step), then builds A = L L^H and b = A x.  Every such A is          *)
(* Hermitian positive definite and every Hermitian positive-definite       *)
(* matrix arises this way, so the envelope "CHOLESKY returns the x with    *)
(* A x = b" has an exact expected value in each final state.               *)
(***************************************************************************)
EXTENDS CQ, TLC

CONSTANTS Dim, DiagSet, Parts, Complex

VARIABLES pick,   \* sequence of chosen entries: L row by row (i >= j), then x
          mat,    \* Dim x Dim matrix (sequence of rows of CQ) once built, else <<>>
          rhs     \* b, once built

vars == <<pick, mat, rhs>>

NL == (Dim * (Dim + 1)) \div 2
Need == NL + Dim

Vals == IF Complex THEN {CGauss(a, b) : a \in Parts, b \in Parts} ELSE {CInt(a) : a \in Parts}

\* position p (1-based) of the row-major lower triangle -> is it a diagonal entry?
RECURSIVE RowOf(_, _)
RowOf(p, i) == IF p <= (i * (i + 1)) \div 2 THEN i ELSE RowOf(p, i + 1)
IsDiag(p) == LET i == RowOf(p, 1) IN p = (i * (i + 1)) \div 2

L(i, j) == IF j > i THEN CZero ELSE pick[((i * (i - 1)) \div 2) + j]
X(i) == pick[NL + i]

AEntry(i, j) == CSumSeq([k \in 1..Dim |-> CMul(L(i, k), CConj(L(j, k)))])

Init == pick = <<>> /\ mat = <<>> /\ rhs = <<>>

Choose == /\ Len(pick) < Need
          /\ \E v \in (IF Len(pick) < NL /\ IsDiag(Len(pick) + 1)
                       THEN {CInt(d) : d \in DiagSet} ELSE Vals) :
                pick' = Append(pick, v)
          /\ UNCHANGED <<mat, rhs>>

Build == /\ Len(pick) = Need
         /\ mat = <<>>
         /\ mat' = [i \in 1..Dim |-> [j \in 1..Dim |-> AEntry(i, j)]]
         /\ rhs' = [i \in 1..Dim |-> CSumSeq([j \in 1..Dim |-> CMul(AEntry(i, j), X(j))])]
         /\ UNCHANGED pick

Next == Choose \/ Build
Spec == Init /\ [][Next]_vars

Built == mat # <<>>

Hermitian == Built => \A i, j \in 1..Dim : mat[i][j] = CConj(mat[j][i])

\* leading principal minors of L L^H are products of squared diagonal entries: > 0
RECURSIVE DiagProd(_)
DiagProd(n) == IF n = 0 THEN One ELSE RMul(CAbs2(L(n, n)), DiagProd(n - 1))
Det2(m) == CSub(CMul(m[1][1], m[2][2]), CMul(m[1][2], m[2][1]))
PositiveMinors == Built => /\ RPos(mat[1][1][1])
                           /\ (Dim >= 2 => Det2(mat) = CReal(DiagProd(2)))

SolvesSystem == Built => \A i \in 1..Dim :
                  CSumSeq([j \in 1..Dim |-> CMul(mat[i][j], X(j))]) = rhs[i]
=============================================================================
