------------------------------- MODULE LevFn -------------------------------
(***************************************************************************)
(* The Levinson-Durbin recursion as a function (same stage as              *)
(* Levinson.tla!Stage, usable inside other kernels): Lev(r, k) is the      *)
(* order-k solution [A, P, ref] for the lag sequence r (r[1] = lag 0).     *)
(* Step-up / step-down on coefficient sequences are provided as well.      *)
(***************************************************************************)
EXTENDS CQ

RECURSIVE Lev(_, _)
Lev(r, k) ==
    IF k = 0 THEN [A |-> <<>>, P |-> r[1][1], ref |-> <<>>]
    ELSE LET s    == Lev(r, k - 1)
             m    == k - 1
             acc  == CSumSeq([j \in 1..m |-> CMul(s.A[j], r[(m - j) + 2])])
             save == CAdd(r[k + 1], acc)
             temp == CNeg(CScale(RInv(s.P), save))
         IN  [A   |-> [j \in 1..k |-> IF j = k THEN temp
                                      ELSE CAdd(s.A[j], CMul(temp, CConj(s.A[k - j])))],
              P   |-> RMul(s.P, RSub(One, CAbs2(temp))),
              ref |-> Append(s.ref, temp)]

\* one step-up of a coefficient sequence a (order m-1 -> m) with reflection coefficient km
LevUp(a, km) == LET m == Len(a) + 1 IN
    [j \in 1..m |-> IF j = m THEN km ELSE CAdd(a[j], CMul(km, CConj(a[m - j])))]

RECURSIVE StepUpSeq(_)
StepUpSeq(ks) == IF ks = <<>> THEN <<>>
                 ELSE LevUp(StepUpSeq(SubSeq(ks, 1, Len(ks) - 1)), ks[Len(ks)])

\* autocorrelation implied by reflection coefficients and zero lag (inverse Levinson)
RECURSIVE ErrSeq(_, _)
ErrSeq(ks, r0) == IF ks = <<>> THEN r0
                  ELSE RMul(ErrSeq(SubSeq(ks, 1, Len(ks) - 1), r0), RSub(One, CAbs2(ks[Len(ks)])))
RECURSIVE AcOfRc(_, _)
AcOfRc(ks, r0) ==
    IF ks = <<>> THEN <<CReal(r0)>>
    ELSE LET m     == Len(ks)
             lower == SubSeq(ks, 1, m - 1)
             rprev == AcOfRc(lower, r0)
             aprev == StepUpSeq(lower)
             acc   == CSumSeq([j \in 1..(m - 1) |-> CMul(aprev[j], rprev[(m - j) + 1])])
         IN  Append(rprev, CNeg(CAdd(CScale(ErrSeq(lower, r0), ks[m]), acc)))
=============================================================================
