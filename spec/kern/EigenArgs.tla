------------------------------ MODULE EigenArgs ------------------------------
(***************************************************************************)
(* C17 (structural part) for eigenfre.eigen / music / ev / pmusic / pev.   *)
(*  1. Argument validation as a decision table: an explicit subspace       *)
(*     dimension NSIG, a threshold and the AIC/MDL rule are mutually       *)
(*     exclusive ways of choosing the signal subspace; NSIG must satisfy   *)
(*     0 <= NSIG < P; the method must be 'music' or 'ev'.  Which rule is   *)
(*     used when the call is accepted is part of the table.                *)
(*  2. The forward-backward data matrix of order P (2(N-P) x P) as pure    *)
(*     index shuffling: FBIndex(N, P, i, k) = <<sample, conjugated?>>      *)
(*        row i <  N-P :  x[i - k + P - 1]                                 *)
(*        row i >= N-P :  conj(x[(i - (N-P)) + k + 1])                     *)
(* Each initial state is one case; the harness replays it.                 *)
(***************************************************************************)
EXTENDS Integers, Sequences, TLC

CONSTANTS P, MaxN

NsigCases == {"none", "negative", "zero", "valid", "equalP", "aboveP"}
ThresholdCases == {"none", "given"}
Criteria == {"aic", "mdl"}
Methods == {"music", "ev", "other"}

VARIABLES kind, nsig, thr, crit, method, accept, rule, N, fb

vars == <<kind, nsig, thr, crit, method, accept, rule, N, fb>>

Accept(ns, th, me) ==
    /\ me \in {"music", "ev"}
    /\ ~(ns # "none" /\ th = "given")
    /\ ns \notin {"negative", "equalP", "aboveP"}

Rule(ns, th, cr) == IF ns # "none" THEN "explicit" ELSE IF th = "given" THEN "threshold" ELSE cr

FBIndex(n, i, k) ==          \* 0-based row i, column k; returns <<1-based sample, conjugated>>
    IF i < n - P THEN <<((i - k) + P - 1) + 1, FALSE>>
    ELSE <<((i - (n - P)) + k + 1) + 1, TRUE>>

Init ==
    \/ /\ kind = "args"
       /\ nsig \in NsigCases /\ thr \in ThresholdCases /\ crit \in Criteria /\ method \in Methods
       /\ accept = Accept(nsig, thr, method)
       /\ rule = Rule(nsig, thr, crit)
       /\ N = 0 /\ fb = <<>>
    \/ /\ kind = "matrix"
       /\ nsig = "none" /\ thr = "none" /\ crit = "aic" /\ method = "music" /\ accept = TRUE /\ rule = "aic"
       /\ N \in (2 * P)..MaxN
       /\ fb = [i \in 1..(2 * (N - P)) |-> [k \in 1..P |-> FBIndex(N, i - 1, k - 1)]]

Next == UNCHANGED vars
Spec == Init /\ [][Next]_vars

\* every entry of the data matrix is a genuine sample
IndicesInRange == kind = "matrix" =>
    \A i \in 1..Len(fb) : \A k \in 1..P : fb[i][k][1] >= 1 /\ fb[i][k][1] <= N
\* forward rows are Toeplitz, backward rows are Hankel (conjugated)
Structure == kind = "matrix" =>
    /\ \A i \in 1..(N - P - 1) : \A k \in 1..(P - 1) : fb[i][k][1] = fb[i + 1][k + 1][1]
    /\ \A i \in (N - P + 1)..(2 * (N - P) - 1) : \A k \in 2..P : fb[i][k][1] = fb[i + 1][k - 1][1]
MutuallyExclusive == kind = "args" => ((nsig # "none" /\ thr = "given") => ~accept)
=============================================================================
