---------------------------- MODULE GenToeplitz ----------------------------
(***************************************************************************)
(* TOEPLITZ (toeplitz.py): general (non-Hermitian) Toeplitz system T x = z *)
(* with first column <<t0, tc_1..tc_M>> and first row <<t0, tr_1..tr_M>>,  *)
(* solved by the two-sided Levinson (Trench/Zohar) recursion.  One action  *)
(* appends one column element, one row element and one right-hand-side     *)
(* element and runs one stage.                                             *)
(*                                                                         *)
(* Envelope (C10): "returns x  =>  T x = z" from the definition of T.  The *)
(* routine refuses a system when an intermediate pivot P is not positive   *)
(* (for complex P: compares lexicographically); `pivots` records every P   *)
(* so that the harness knows when a refusal is legitimate.                 *)
(***************************************************************************)
EXTENDS CQ, TLC

CONSTANTS MaxOrder, T0Set, T0Im, Parts, ZParts, Complex   \* T0Im: imaginary parts of the diagonal (complex systems)

VARIABLES t0, tc, tr, z, x, A, B, P, pivots, status

vars == <<t0, tc, tr, z, x, A, B, P, pivots, status>>

Vals(S) == IF Complex THEN {CGauss(a, b) : a \in S, b \in S} ELSE {CInt(a) : a \in S}

Init == /\ t0 \in (IF Complex THEN {CGauss(v, u) : v \in T0Set, u \in T0Im} ELSE {CInt(v) : v \in T0Set})
        /\ tc = <<>> /\ tr = <<>>
        /\ z \in {<<v>> : v \in Vals(ZParts)}
        /\ x = <<CDiv(z[1], t0)>>
        /\ A = <<>> /\ B = <<>>
        /\ P = t0
        /\ pivots = <<>>
        /\ status = "ok"

\* body of the k-th iteration (k = Len(A), 0-based) of TOEPLITZ
Stage(c, w, zk) ==
    LET k     == Len(A)
        TC(i) == IF i = k + 1 THEN c ELSE tc[i]      \* 1-based, TC(i) = code TC[i-1]
        TR(i) == IF i = k + 1 THEN w ELSE tr[i]
        save1 == CAdd(c, CSumSeq([j \in 1..k |-> CMul(A[j], TC(k + 1 - j))]))
        save2 == CAdd(w, CSumSeq([j \in 1..k |-> CMul(B[j], TR(k + 1 - j))]))
        beta  == CSumSeq([j \in 1..(k + 1) |-> CMul(x[j], TC(k + 2 - j))])
        temp1 == CNeg(CDiv(save1, P))
        temp2 == CNeg(CDiv(save2, P))
        newP  == CMul(P, CSub(COne, CMul(temp1, temp2)))
        \* A[j] <- A[j] + temp1*B[k-1-j] ; B[kj] <- B[kj] + temp2*A_old[j]  (kj = k-1-j)
        newA  == [j \in 1..(k + 1) |-> IF j = k + 1 THEN temp1
                                       ELSE CAdd(A[j], CMul(temp1, B[k + 1 - j]))]
        newB  == [j \in 1..(k + 1) |-> IF j = k + 1 THEN temp2
                                       ELSE CAdd(B[j], CMul(temp2, A[k + 1 - j]))]
        alpha == CDiv(CSub(zk, beta), newP)
    IN  /\ tc' = Append(tc, c)
        /\ tr' = Append(tr, w)
        /\ z' = Append(z, zk)
        /\ A' = newA
        /\ B' = newB
        /\ P' = newP
        /\ pivots' = Append(pivots, newP)
        /\ x' = [j \in 1..(k + 2) |-> IF j = k + 2 THEN alpha
                                      ELSE CAdd(x[j], CMul(alpha, newB[k + 2 - j]))]
        /\ status' = IF CBad(newP) \/ CSeqBad(newA) \/ CSeqBad(newB) THEN "ovf"
                     ELSE IF CIsZero(newP) THEN "zero-pivot"
                     ELSE "ok"
        /\ UNCHANGED t0

Extend(c, w, zk) == /\ status = "ok"
                    /\ Len(A) < MaxOrder
                    /\ Stage(c, w, zk)

Next == \E c \in Vals(Parts), w \in Vals(Parts), zk \in Vals(ZParts) : Extend(c, w, zk)

Spec == Init /\ [][Next]_vars

\* definition of the Toeplitz matrix: T[i][j] = tc[i-j] (i > j), tr[j-i] (j > i), t0
Entry(i, j) == IF i = j THEN t0 ELSE IF i > j THEN tc[i - j] ELSE tr[j - i]
Order == Len(A)
TxRow(i) == CSumSeq([j \in 1..(Order + 1) |-> CMul(Entry(i, j), x[j])])

Solves ==
    (status = "ok" /\ ~CSeqBad(x)) => \A i \in 1..(Order + 1) : TxRow(i) = z[i]
=============================================================================
