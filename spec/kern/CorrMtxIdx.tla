----------------------------- MODULE CorrMtxIdx -----------------------------
(***************************************************************************)
(* linalg.corrmtx(x, m, method) is pure index shuffling: for a signal of    *)
(* length N and order m, entry (i, j) of the data matrix (0-based) holds    *)
(* either a zero, a sample x[s] or its conjugate.  IndexEntry returns       *)
(* <<s+1 (0 = a zero), conjugated?>>.                                       *)
(*   Tp[i][j] = x[m+i-j]  (covariance rows)                                 *)
(*   Lp[i][j] = x[i-j], i >= j  (pre-window rows)                           *)
(*   Up[i][j] = x[N+i-j], j > i (post-window rows)                          *)
(***************************************************************************)
EXTENDS Integers

Methods == {"autocorrelation", "prewindowed", "postwindowed", "covariance", "modified"}

Sample(N, i) == IF i >= 0 /\ i < N THEN i + 1 ELSE 0
Rows(N, m, method) ==
    IF method = "autocorrelation" THEN N + m
    ELSE IF method \in {"prewindowed", "postwindowed"} THEN N
    ELSE IF method = "covariance" THEN N - m
    ELSE 2 * (N - m)

IndexEntry(N, m, method, i, j) ==      \* 0-based row i, column j
    IF method = "autocorrelation" THEN <<Sample(N, i - j), FALSE>>
    ELSE IF method = "prewindowed" THEN <<Sample(N, i - j), FALSE>>
    ELSE IF method = "postwindowed" THEN <<Sample(N, (m + i) - j), FALSE>>
    ELSE IF method = "covariance" THEN <<Sample(N, (m + i) - j), FALSE>>
    ELSE (* modified: forward rows then backward (conjugated, column-reversed) rows *)
         IF i < N - m THEN <<Sample(N, (m + i) - j), FALSE>>
         ELSE <<Sample(N, (i - (N - m)) + j), TRUE>>
=============================================================================
