----------------------------- MODULE WindowFactory -----------------------------
(***************************************************************************)
(* C20: the window factory (create_window / Window) as a decision table.   *)
(*  - the 29 accepted names, grouped into alias classes (same samples)     *)
(*  - which shape parameters each name documents: the factory forwards     *)
(*    exactly those and rejects every other keyword                        *)
(* Each initial state is one (name, keyword) pair with the expected        *)
(* verdict; the harness replays it into create_window and Window.          *)
(***************************************************************************)
EXTENDS TLC, FiniteSets

Names == {"bartlett", "bartlett_hann", "blackman", "blackman_harris", "blackman_nuttall", "bohman",
          "cauchy", "chebwin", "cosine", "flattop", "gaussian", "hamming", "hann", "hanning", "kaiser",
          "lanczos", "nuttall", "parzen", "poisson", "poisson_hanning", "rectangle", "rectangular",
          "riemann", "riesz", "sinc", "sine", "taylor", "triangular", "tukey"}

AliasClasses == {{"hann", "hanning"}, {"rectangular", "rectangle"}, {"bartlett", "triangular"},
                 {"cosine", "sine"}, {"lanczos", "sinc"}}

Documented(nm) ==
    IF nm = "kaiser" THEN {"beta"}
    ELSE IF nm \in {"blackman", "cauchy", "gaussian", "poisson", "poisson_hanning"} THEN {"alpha"}
    ELSE IF nm = "flattop" THEN {"mode"}
    ELSE IF nm = "chebwin" THEN {"attenuation"}
    ELSE IF nm = "tukey" THEN {"r"}
    ELSE IF nm = "taylor" THEN {"nbar", "sll"}
    ELSE {}

Keywords == {"beta", "alpha", "mode", "attenuation", "r", "nbar", "sll", "norm_unknown", "N2"}

VARIABLES name, kw, accept, alias
vars == <<name, kw, accept, alias>>

AliasOf(nm) == IF \E c \in AliasClasses : nm \in c
               THEN CHOOSE c \in AliasClasses : nm \in c ELSE {nm}

Init == /\ name \in Names
        /\ kw \in Keywords \cup {"none"}
        /\ accept = (kw = "none" \/ kw \in Documented(name))
        /\ alias = AliasOf(name)
Next == UNCHANGED vars
Spec == Init /\ [][Next]_vars

TwentyNineNames == Cardinality(Names) = 29
\* aliases document the same parameters
AliasesAgree == \A c \in AliasClasses : \A p, q \in c : Documented(p) = Documented(q)
=============================================================================
