----------------------------- MODULE Levinson -----------------------------
(***************************************************************************)
(* The Levinson-Durbin recursion of levinson.py (LEVINSON) as a stage      *)
(* machine in exact complex-rational arithmetic.                           *)
(*                                                                         *)
(* One action, Extend(t): append the next autocorrelation lag t to r and   *)
(* run exactly one stage of the recursion (the body of the `for k` loop of *)
(* LEVINSON).  Every reachable state is therefore "a lag prefix r[0..k]    *)
(* together with the complete order-k solution", i.e. a self-contained     *)
(* implementation test vector; nesting (order-q solution = first q stages  *)
(* of the order-p run) is structural.                                      *)
(*                                                                         *)
(* The envelope (what C10 states) is the set of invariants below: they are *)
(* evaluated from the *definition* (Toeplitz product, product formula,     *)
(* Schur-Cohn step-down), not from the recursion.                          *)
(***************************************************************************)
EXTENDS CQ, TLC

CONSTANTS MaxOrder,   \* highest order explored
          R0Set,      \* zero-lag values (positive integers)
          Parts,      \* integer parts of the other lags
          Complex     \* TRUE: Gaussian-integer lags, FALSE: integer lags

VARIABLES r,       \* sequence of CQ: r[1] = lag 0, r[j+1] = lag j
          A,       \* sequence of CQ, current prediction coefficients a_1..a_k
          P,       \* Rat, prediction error
          ref,     \* sequence of CQ, reflection coefficients k_1..k_k
          status   \* "pd" | "singular" | "indefinite" | "ovf"

vars == <<r, A, P, ref, status>>

Order == Len(A)

Lags == IF Complex THEN {CGauss(a, b) : a \in Parts, b \in Parts}
                   ELSE {CInt(a) : a \in Parts}

Init == /\ r \in {<<CInt(r0)>> : r0 \in R0Set}
        /\ A = <<>>
        /\ ref = <<>>
        /\ P = r[1][1]
        /\ status = "pd"

\* one stage of LEVINSON for the new lag t = T[k] (0-based k = Len(A))
\*   save = T[k] + sum_{j<k} A[j] * T[k-j-1] ;  temp = -save / P
\*   P = P * (1 - |temp|^2)
\*   A[j] <- A[j] + temp * conj(A[k-j-1])  (j < k) ;  A[k] = temp
Stage(t) ==
    LET k     == Len(A)
        \* T[i] (0-based) is r[i+2]
        acc   == CSumSeq([j \in 1..k |-> CMul(A[j], r[(k - j) + 2])])
        save  == CAdd(t, acc)
        temp  == CNeg(CScale(RInv(P), save))
        newP  == RMul(P, RSub(One, CAbs2(temp)))
        newA  == [j \in 1..(k + 1) |->
                    IF j = k + 1 THEN temp
                    ELSE CAdd(A[j], CMul(temp, CConj(A[k + 1 - j])))]
    IN  /\ r' = Append(r, t)
        /\ A' = newA
        /\ ref' = Append(ref, temp)
        /\ P' = newP
        /\ status' = IF IsOvf(newP) \/ CSeqBad(newA) THEN "ovf"
                     ELSE IF RPos(newP) THEN "pd"
                     ELSE IF RIsZero(newP) THEN "singular"
                     ELSE "indefinite"

Extend(t) == /\ status = "pd"
             /\ Len(A) < MaxOrder
             /\ Stage(t)

Next == \E t \in Lags : Extend(t)

Spec == Init /\ [][Next]_vars

---------------------------------------------------------------------------
(* The envelope: definitions independent of the recursion.                 *)

\* Hermitian Toeplitz entry T[i][j] = r_{i-j} (i >= j), conj(r_{j-i}) otherwise
TEntry(i, j) == IF i >= j THEN r[(i - j) + 1] ELSE CConj(r[(j - i) + 1])

\* coefficient vector [1, a_1 .. a_k], 0-based index
Coef(j) == IF j = 0 THEN COne ELSE A[j]

\* row i (0-based) of T_k [1, a]^T
Row(i) == CSumSeq([j \in 1..(Order + 1) |-> CMul(TEntry(i, j - 1), Coef(j - 1))])

Good == status \in {"pd", "singular", "indefinite"}

\* C10: T_p [1, a]^T = [P, 0, .., 0]^T  (holds at every stage whatever the sign of P)
ToeplitzEquation ==
    Good => /\ Row(0) = CReal(P)
            /\ \A i \in 1..Order : CIsZero(Row(i))

\* C10: P = r0 * prod(1 - |k_i|^2)
ProductFormula ==
    Good => P = RMul(r[1][1], RProdSeq([i \in 1..Order |-> RSub(One, CAbs2(ref[i]))]))

\* C10: positive-definite prefix <=> all |k_i| < 1 and P > 0
ReflectionBound ==
    (status = "pd") => /\ RPos(P)
                       /\ \A i \in 1..Order : RLt(CAbs2(ref[i]), One)

\* Schur-Cohn: stepping the polynomial [1, a] down reproduces ref; with
\* ReflectionBound this is stability of the polynomial.
RECURSIVE StepDownRef(_)
StepDownRef(a) ==
    IF a = <<>> THEN <<>>
    ELSE LET m   == Len(a)
             km  == a[m]
             den == RSub(One, CAbs2(km))
         IN  IF RIsZero(den) \/ IsOvf(den) THEN <<>>
             ELSE LET lower == [j \in 1..(m - 1) |->
                                  CScale(RInv(den),
                                         CSub(a[j], CMul(km, CConj(a[m - j]))))]
                  IN  Append(StepDownRef(lower), km)

Stable ==
    (status = "pd") => StepDownRef(A) = ref

\* leading principal minors are positive iff pd: determinant of T_k = prod of P_j;
\* checked through the 2x2 and 3x3 closed forms as an independent cross-check
Det2 == RSub(RMul(r[1][1], r[1][1]), CAbs2(r[2]))
MinorCheck ==
    (Order >= 1 /\ Good) =>
        (RPos(Det2) <=> RLt(CAbs2(ref[1]), One))

\* state constraint used only to keep overflow states terminal
NoOvfGrowth == TRUE
=============================================================================
