-------------------------------- MODULE Windows --------------------------------
(***************************************************************************)
(* C20: closed forms of the classical tapering windows, in exact           *)
(* arithmetic, at the lengths where their samples are rational.            *)
(*                                                                         *)
(* Cosine-sum family (hann, hamming, blackman(alpha), blackman_harris,     *)
(* nuttall, blackman_nuttall, flat-top, bartlett_hann): samples are        *)
(*   sum_k (+/-) a_k cos(2 pi k n / M),  M = N-1 (symmetric) or N          *)
(*   (periodic flat-top); cos(2 pi j / M) is rational for M in             *)
(*   {1,2,3,4,6}, hence N in {2,3,4,5,7} (and N = 1 by convention: [1]).   *)
(* Coefficients are decimal literals: fixed point in units of 1e-9, the    *)
(* doubled cosine 2cos in {-2,-1,0,1,2} keeps everything integral.         *)
(* Polynomial / rational windows (rectangular, bartlett = triangular,      *)
(* riesz, parzen, cauchy(alpha), tukey(0), tukey(1)) are rational for all  *)
(* N.  Each initial state is one (name, N, parameter) with its samples w   *)
(* (sequence of rationals); the harness replays it into create_window,     *)
(* the window_* function and the Window object, for every alias.           *)
(***************************************************************************)
EXTENDS Rat, TLC

CONSTANT MaxN

VARIABLES name, N, par, w

vars == <<name, N, par, w>>

\* 2*cos(2 pi j / M) for M in {1,2,3,4,6}
TwoCos(M, j) ==
    LET r == j % M IN
    IF M = 1 THEN 2
    ELSE IF M = 2 THEN (IF r = 0 THEN 2 ELSE -2)
    ELSE IF M = 3 THEN (IF r = 0 THEN 2 ELSE -1)
    ELSE IF M = 4 THEN (IF r = 0 THEN 2 ELSE IF r = 2 THEN -2 ELSE 0)
    ELSE (* M = 6 *)   (IF r = 0 THEN 2 ELSE IF r \in {1, 5} THEN 1 ELSE IF r \in {2, 4} THEN -1 ELSE -2)

RationalM == {1, 2, 3, 4, 6}
Giga2 == 2000000000

\* a = <<a0, a1, a2, a3, a4>> in units of 1e-9; value a0 - a1 c1 + a2 c2 - a3 c3 + a4 c4
CosSum(a, M, n) ==
    RFrac(2 * a[1] - a[2] * TwoCos(M, n) + a[3] * TwoCos(M, 2 * n) - a[4] * TwoCos(M, 3 * n) + a[5] * TwoCos(M, 4 * n),
          Giga2)

Coefs(nm, alpha1000) ==
    IF nm = "hann" THEN <<500000000, 500000000, 0, 0, 0>>
    ELSE IF nm = "hamming" THEN <<540000000, 460000000, 0, 0, 0>>
    ELSE IF nm = "blackman" THEN <<(1000 - alpha1000) * 500000, 500000000, alpha1000 * 500000, 0, 0>>
    ELSE IF nm = "blackman_harris" THEN <<358750000, 488290000, 141280000, 11680000, 0>>
    ELSE IF nm = "nuttall" THEN <<355768000, 487396000, 144232000, 12604000, 0>>
    ELSE IF nm = "blackman_nuttall" THEN <<363581900, 489177500, 136599500, 10641100, 0>>
    ELSE (* flattop *) <<215578950, 416631580, 277263158, 83578947, 6947368>>

CosSumNames == {"hann", "hamming", "blackman", "blackman_harris", "nuttall", "blackman_nuttall", "flattop"}

AbsR(r) == RAbs(r)

\* ---- closed forms; n is 0-based, result a rational
Bartlett(len, n) == IF len = 1 THEN One
                    ELSE RSub(One, RAbs(RSub(RFrac(2 * n, len - 1), One)))
BartlettHann(len, n) ==     \* 0.62 - 0.48 |n/(N-1) - 1/2| - 0.38 cos(2 pi n/(N-1))
    RSub(RSub(RFrac(62, 100), RMul(RFrac(48, 100), RAbs(RSub(RFrac(n, len - 1), RFrac(1, 2))))),
         RMul(RFrac(19, 100), RInt(TwoCos(len - 1, n))))
\* riesz / cauchy / (poisson, riemann): abscissa linspace(-N/2, N/2, N): t_n = -N/2 + n N/(N-1); u = t/(N/2)
U(len, n) == IF len = 1 THEN RInt(-1) ELSE RSub(RFrac(2 * n, len - 1), One)
Riesz(len, n) == RSub(One, RMul(U(len, n), U(len, n)))
Cauchy(len, n, a1000) == LET au == RMul(RFrac(a1000, 1000), U(len, n))
                         IN  RInv(RAdd(One, RMul(au, au)))
\* parzen: abscissa linspace(-(N-1)/2, (N-1)/2, N): t_n = n - (N-1)/2, v = |t|/(N/2)
Parzen(len, n) ==
    LET t == RSub(RInt(n), RFrac(len - 1, 2))
        v == RDiv(RAbs(t), RFrac(len, 2))
    IN  IF RLe(RAbs(t), RFrac(len - 1, 4))
        THEN RAdd(RSub(One, RMul(RInt(6), RMul(v, v))), RMul(RInt(6), RMul(v, RMul(v, v))))
        ELSE LET o == RSub(One, v) IN RMul(RInt(2), RMul(o, RMul(o, o)))
\* cosine (sine) window sin(pi n/(N-1)): rational for N in {2, 3}
Cosine(len, n) == IF len = 1 THEN One ELSE IF len = 2 THEN Zero ELSE (IF n = 1 THEN One ELSE Zero)

Sample(nm, len, p, n) ==
    IF nm = "rectangular" THEN One
    ELSE IF nm = "bartlett" THEN Bartlett(len, n)
    ELSE IF nm \in CosSumNames THEN
        IF len = 1 /\ ~(nm = "flattop" /\ p = 1) THEN One
        ELSE IF nm = "flattop" /\ p = 1 THEN CosSum(Coefs(nm, 0), len, n)        \* periodic: M = N
        ELSE CosSum(Coefs(nm, p), len - 1, n)
    ELSE IF nm = "bartlett_hann" THEN (IF len = 1 THEN One ELSE BartlettHann(len, n))
    ELSE IF nm = "riesz" THEN Riesz(len, n)
    ELSE IF nm = "cauchy" THEN Cauchy(len, n, p)
    ELSE IF nm = "parzen" THEN Parzen(len, n)
    ELSE IF nm = "cosine" THEN Cosine(len, n)
    ELSE IF nm = "tukey" THEN (IF p = 0 \/ len = 1 THEN One ELSE CosSum(Coefs("hann", 0), len - 1, n))   \* r = 0 / r = 1
    ELSE Zero

\* which lengths are rational for which window (p = parameter code, see harness)
Admissible(nm, len, p) ==
    IF nm \in {"rectangular", "bartlett", "riesz", "parzen", "cauchy"} THEN TRUE
    ELSE IF nm = "flattop" /\ p = 1 THEN len \in RationalM
    ELSE IF nm \in CosSumNames \cup {"bartlett_hann"} THEN len = 1 \/ (len - 1) \in RationalM
    ELSE IF nm = "cosine" THEN len \in {1, 2, 3}
    ELSE IF nm = "tukey" THEN p = 0 \/ len = 1 \/ (len - 1) \in RationalM
    ELSE FALSE

Params(nm) ==
    IF nm = "blackman" THEN {160, 200, 0, 300, 500, 1000}   \* alpha * 1000 (above 250 the closed form has negative samples)
    ELSE IF nm = "cauchy" THEN {3000, 2000, 500, 6000}   \* alpha * 1000
    ELSE IF nm = "flattop" THEN {0, 1}             \* 0 = symmetric, 1 = periodic
    ELSE IF nm = "tukey" THEN {0, 1}               \* r = 0, r = 1
    ELSE {0}

Names == {"rectangular", "bartlett", "hann", "hamming", "blackman", "blackman_harris", "nuttall",
          "blackman_nuttall", "flattop", "bartlett_hann", "riesz", "parzen", "cauchy", "cosine", "tukey"}

Init == /\ name \in Names
        /\ N \in 1..MaxN
        /\ par \in Params(name)
        /\ Admissible(name, N, par)
        /\ w = [i \in 1..N |-> Sample(name, N, par, i - 1)]

Next == UNCHANGED vars
Spec == Init /\ [][Next]_vars

---------------------------------------------------------------------------
\* the generic clauses of C20 on the exact samples
NoOverflow == \A i \in 1..N : ~IsOvf(w[i])
\* (the periodic flat-top mode is one period of a longer symmetric window: exempt)
Symmetric == ~(name = "flattop" /\ par = 1) => \A i \in 1..N : w[i] = w[(N + 1) - i]
Slack == RFrac(1, 1000000)
AtMostOne == \A i \in 1..N : RLe(w[i], RAdd(One, Slack))
CentreIsOne == (N % 2 = 1 /\ N >= 3 /\ ~(name = "flattop" /\ par = 1)) =>
                  RLe(RAbs(RSub(w[(N + 1) \div 2], One)), Slack)
=============================================================================
