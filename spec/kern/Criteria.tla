------------------------------- MODULE Criteria -------------------------------
(***************************************************************************)
(* The order-selection helper criteria.Criteria as a two-register state    *)
(* machine (growth of the specification beyond the listed properties; it   *)
(* is the stop rule used by arburg, C13):                                  *)
(*   data      the last criterion value        old     the one before      *)
(*   Eval(v):  old <- data (or 2*v the very first time), data <- v;        *)
(*             returns FALSE iff the new value is larger than the previous *)
(*             one (the recursion must stop), TRUE otherwise               *)
(* Criterion values are abstracted to small integers: only their order     *)
(* matters for the stop decision.                                          *)
(***************************************************************************)
EXTENDS Integers, Sequences, TLC

CONSTANTS Values, MaxCalls

VARIABLES data, old, hist, ret     \* hist: values fed so far; ret: what each call returned

vars == <<data, old, hist, ret>>

None == -1000

Init == data = None /\ old = None /\ hist = <<>> /\ ret = <<>>

Eval(v) == /\ Len(hist) < MaxCalls
           /\ old' = IF data = None THEN 2 * v ELSE data
           /\ data' = v
           /\ hist' = Append(hist, v)
           /\ ret' = Append(ret, ~(v > old'))

Next == \E v \in Values : Eval(v)
Spec == Init /\ [][Next]_vars

\* from the second call on, a call returns FALSE exactly when its value exceeds the previous one
StopRule == \A i \in 2..Len(hist) : ret[i] = ~(hist[i] > hist[i - 1])
Registers == Len(hist) >= 1 => (data = hist[Len(hist)] /\ (Len(hist) >= 2 => old = hist[Len(hist) - 1]))
=============================================================================
