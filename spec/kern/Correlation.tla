---------------------------- MODULE Correlation ----------------------------
(***************************************************************************)
(* C09: the correlation estimates of correlation.py and the data matrices  *)
(* of linalg.corrmtx, from their definitions, in exact arithmetic.         *)
(*                                                                         *)
(*   Raw_xy(k) = sum_{n=0}^{N-k-1} x[n+k] * conj(y[n]),  N = max(|x|,|y|), *)
(*   the shorter sequence zero-padded;                                     *)
(*   biased = Raw/N, unbiased = Raw/(N-k), None = Raw,                     *)
(*   coeff (autocorrelation) = Raw(k)/(N*rms(x)^2) = Raw(k)/Raw(0);        *)
(*   two-sided: lag -k carries conj(r_yx(k)).                              *)
(*                                                                         *)
(* x (then optionally y) is chosen one sample per step; the action Done    *)
(* evaluates every normalisation into `out`, so each final state is a      *)
(* complete test vector for CORRELATION and xcorr.                         *)
(*                                                                         *)
(* corrmtx is pure index shuffling: IndexMatrix(N, m, method) gives, per   *)
(* entry, which sample it holds (0 = a zero) and whether it is conjugated. *)
(***************************************************************************)
EXTENDS CQ, CorrMtxIdx, TLC

CONSTANTS MaxN,      \* maximum length of x
          MaxM,      \* maximum length of y (0: autocorrelation only)
          Parts, Complex

VARIABLES x, y, phase, out    \* phase: "x" | "y" | "done"

vars == <<x, y, phase, out>>

Vals == IF Complex THEN {CGauss(a, b) : a \in Parts, b \in Parts} ELSE {CInt(a) : a \in Parts}

Init == x = <<>> /\ y = <<>> /\ phase = "x" /\ out = <<>>

PickX == /\ phase = "x" /\ Len(x) < MaxN
         /\ \E v \in Vals : x' = Append(x, v)
         /\ UNCHANGED <<y, phase, out>>
ToY   == /\ phase = "x" /\ Len(x) >= 1 /\ MaxM > 0
         /\ phase' = "y" /\ UNCHANGED <<x, y, out>>
PickY == /\ phase = "y" /\ Len(y) < MaxM
         /\ \E v \in Vals : y' = Append(y, v)
         /\ UNCHANGED <<x, phase, out>>

\* ------------------------------------------------------------- definitions
Auto == y = <<>>
Y == IF Auto THEN x ELSE y
NN == IF Len(x) >= Len(Y) THEN Len(x) ELSE Len(Y)
Pad(s, n) == IF n >= 1 /\ n <= Len(s) THEN s[n] ELSE CZero      \* 1-based, zero padded

Raw(u, v, k) == CSumSeq([n \in 1..(NN - k) |-> CMul(Pad(u, n + k), CConj(Pad(v, n)))])

Biased(u, v, k)   == CScale(RFrac(1, NN), Raw(u, v, k))
Unbiased(u, v, k) == CScale(RFrac(1, NN - k), Raw(u, v, k))
\* autocorrelation coefficient: Raw(k)/Raw(0); undefined (OVF) for the zero signal
Coeff(u, k) == CScale(RInv(Raw(u, u, 0)[1]), Raw(u, u, k))

Lags == 0..(NN - 1)

Done == /\ phase \in {"x", "y"} /\ Len(x) >= 1 /\ (phase = "y" => Len(y) >= 1)
        /\ phase' = "done"
        /\ out' = [N |-> NN,
                   raw |-> [k \in 1..NN |-> Raw(x, Y, k - 1)],
                   rawyx |-> [k \in 1..NN |-> Raw(Y, x, k - 1)],
                   biased |-> [k \in 1..NN |-> Biased(x, Y, k - 1)],
                   unbiased |-> [k \in 1..NN |-> Unbiased(x, Y, k - 1)],
                   coeff |-> IF Auto /\ ~RIsZero(Raw(x, x, 0)[1])
                             THEN [k \in 1..NN |-> Coeff(x, k - 1)] ELSE <<>>]
        /\ UNCHANGED <<x, y>>

Next == PickX \/ ToY \/ PickY \/ Done
Spec == Init /\ [][Next]_vars

IsDone == phase = "done"

\* ------------------------------------------------------------- C09 clauses
\* r[0] = mean |x|^2 (real, >= 0) and |r[k]| <= r[0]
ZeroLagIsPower ==
    (IsDone /\ Auto) =>
        /\ out.biased[1] = CReal(RMul(RFrac(1, NN), RSumSeq([n \in 1..Len(x) |-> CAbs2(x[n])])))
        /\ \A k \in 2..NN : RLe(CAbs2(out.biased[k]), RMul(out.biased[1][1], out.biased[1][1]))

\* coefficient normalisation is 1 at lag 0
CoeffUnitAtZero == (IsDone /\ out.coeff # <<>>) => out.coeff[1] = COne

\* r_yx(k) = conj(r_xy(-k)): for the autocorrelation the negative lags are conjugates
HermitianLags == (IsDone /\ Auto) => \A k \in 1..NN : out.rawyx[k] = out.raw[k]

\* ------------------------------------------------------------- corrmtx
Entry(N, m, method, i, j) ==
    LET e == IndexEntry(N, m, method, i, j)
    IN  IF e[1] = 0 THEN CZero ELSE IF e[2] THEN CConj(x[e[1]]) ELSE x[e[1]]

\* Gram matrix of the 'autocorrelation' data matrix = N * Toeplitz(biased r)
Gram(m, a, b) == CSumSeq([i \in 1..(Len(x) + m) |->
                    CMul(CConj(Entry(Len(x), m, "autocorrelation", i - 1, a)),
                         Entry(Len(x), m, "autocorrelation", i - 1, b))])
ToeplitzOfBiased(a, b) == IF a >= b THEN out.biased[(a - b) + 1] ELSE CConj(out.biased[(b - a) + 1])

GramIsToeplitz ==
    (IsDone /\ Auto) =>
        \A m \in 0..(NN - 1) : \A a, b \in 0..m :
            Gram(m, a, b) = CScale(RInt(NN), ToeplitzOfBiased(a, b))
=============================================================================
