----------------------------- MODULE Toeplitz -----------------------------
(***************************************************************************)
(* HERMTOEP (toeplitz.py): solve the Hermitian Toeplitz system T x = z by  *)
(* the Levinson recursion.  The coefficient recursion is *the same stage*  *)
(* as in Levinson.tla (reused, not copied); this module adds the right-    *)
(* hand side z and the solution x.  One action appends one lag and one     *)
(* right-hand-side element and runs one stage, so every state is a         *)
(* complete (k+1) x (k+1) system together with its exact solution.         *)
(*                                                                         *)
(* Envelope (C10): T x = z, evaluated from the definition of T.            *)
(***************************************************************************)
EXTENDS Levinson

CONSTANT ZParts   \* integer parts of the right-hand side

VARIABLES z, x    \* sequences of CQ, length Order+1

tvars == <<r, A, P, ref, status, z, x>>

ZVals == IF Complex THEN {CGauss(a, b) : a \in ZParts, b \in ZParts}
                    ELSE {CInt(a) : a \in ZParts}

TInit == /\ Init
         /\ z \in {<<v>> : v \in ZVals}
         /\ x = <<CScale(RInv(r[1][1]), z[1])>>

\* stage k (0-based) of HERMTOEP with new lag t and new rhs element zk:
\*   beta  = sum_{j=0..k} X[j] * T[k-j]          (T[i] = lag i+1, T[k] = t)
\*   (Levinson stage: temp, A, P)
\*   alpha = (zk - beta) / P_new
\*   X[j] += alpha * conj(A_new[k-j])  (j = 0..k) ;  X[k+1] = alpha
TStage(t, zk) ==
    LET k    == Len(A)
        lag(i) == IF i = k + 1 THEN t ELSE r[i + 1]      \* lag i, i = 1..k+1
        beta == CSumSeq([j \in 1..(k + 1) |-> CMul(x[j], lag(k + 2 - j))])
    IN  /\ Stage(t)
        /\ z' = Append(z, zk)
        /\ LET alpha == CScale(RInv(P'), CSub(zk, beta))
           IN  x' = [j \in 1..(k + 2) |->
                        IF j = k + 2 THEN alpha
                        ELSE CAdd(x[j], CMul(alpha, CConj(A'[k + 2 - j])))]

TExtend(t, zk) == /\ status = "pd"
                  /\ Len(A) < MaxOrder
                  /\ TStage(t, zk)

TNext == \E t \in Lags, zk \in ZVals : TExtend(t, zk)

TSpec == TInit /\ [][TNext]_tvars

\* (T x)_i from the definition of the Hermitian Toeplitz matrix
TxRow(i) == CSumSeq([j \in 1..(Order + 1) |-> CMul(TEntry(i, j - 1), x[j])])

Solves ==
    (status = "pd" /\ ~CSeqBad(x)) => \A i \in 0..Order : TxRow(i) = z[i + 1]
=============================================================================
