----------------------------- MODULE YuleWalker -----------------------------
(***************************************************************************)
(* C12: the Yule-Walker AR estimator = biased sample autocorrelation        *)
(* (Correlation.tla) followed by the Levinson recursion (LevFn.tla).        *)
(* After the data are complete (Correlation!Done), the action Solve stores  *)
(* the order-p model for every p < N in `sol`.                              *)
(*                                                                          *)
(* Envelope: for non-zero data the model is stable (|k_i| < 1, P > 0), its  *)
(* autocorrelation reproduces the sample autocorrelation on lags 0..p, and  *)
(* the coefficients solve the least-squares normal equations of the         *)
(* 'autocorrelation' data matrix (Gram = N * Toeplitz).                     *)
(***************************************************************************)
EXTENDS Correlation, LevFn

VARIABLE sol     \* sol[p] = [A, P, ref] of order p, p = 1..N-1, once solved

yvars == <<x, y, phase, out, sol>>

NonZero == ~RIsZero(out.biased[1][1])

YInit == Init /\ sol = <<>>

Solve == /\ phase = "done" /\ Auto /\ NN >= 2 /\ NonZero
         /\ phase' = "solved"
         /\ sol' = [p \in 1..(NN - 1) |-> Lev(out.biased, p)]
         /\ UNCHANGED <<x, y, out>>

YNext == (Next /\ UNCHANGED sol) \/ Solve
YSpec == YInit /\ [][YNext]_yvars

Solved == phase = "solved"

StableModel ==
    Solved => \A p \in 1..(NN - 1) :
                 \/ IsOvf(sol[p].P) \/ CSeqBad(sol[p].ref)          \* (arithmetic overflow: state not decided)
                 \/ /\ RPos(sol[p].P)
                    /\ \A i \in 1..p : LET m == CAbs2(sol[p].ref[i]) IN IsOvf(m) \/ RLt(m, One)

\* the model's autocorrelation equals the sample autocorrelation on lags 0..p
MatchesAutocorrelation ==
    Solved => \A p \in 1..(NN - 1) :
                 CSeqEqOrOvf(AcOfRc(sol[p].ref, out.biased[1][1]), SubSeq(out.biased, 1, p + 1))

\* normal equations of the least-squares problem on the 'autocorrelation' data matrix:
\*   sum_j Gram(i, j) a_j + Gram(i, 0) = 0   for i = 1..p
LeastSquares ==
    Solved => \A p \in 1..(NN - 1) : \A i \in 1..p :
                 LET v == CAdd(Gram(p, i, 0), CSumSeq([j \in 1..p |-> CMul(Gram(p, i, j), sol[p].A[j])]))
                 IN  CBad(v) \/ CIsZero(v)

\* C03 on the kernels: scaling the data by c multiplies every correlation sum by |c|^2,
\* leaves the Yule-Walker coefficients unchanged and multiplies the variance by |c|^2
ScaleSet == {CInt(2), CInt(-1), CI, CGauss(1, 1)}
ScaledX(c) == [n \in 1..Len(x) |-> CMul(c, x[n])]
RawOf(u, k) == CSumSeq([n \in 1..(Len(u) - k) |-> CMul(u[n + k], CConj(u[n]))])
ScalingTheoremCorrelation ==
    (phase \in {"done", "solved"} /\ Auto) =>
        \A c \in (IF Complex THEN ScaleSet ELSE {CInt(2), CInt(-1)}) : \A k \in 0..(NN - 1) :
            CEqOrOvf(RawOf(ScaledX(c), k), CScale(CAbs2(c), RawOf(x, k)))
ScalingTheoremYuleWalker ==
    Solved => \A c \in (IF Complex THEN ScaleSet ELSE {CInt(2), CInt(-1)}) : \A p \in 1..(NN - 1) :
        LET rs == [k \in 1..NN |-> CScale(CAbs2(c), out.biased[k])]
            s2 == Lev(rs, p)
        IN  /\ CSeqEqOrOvf(s2.A, sol[p].A)
            /\ CSeqEqOrOvf(s2.ref, sol[p].ref)
            /\ REqOrOvf(s2.P, RMul(CAbs2(c), sol[p].P))

Nested ==
    Solved => \A p \in 2..(NN - 1) : SubSeq(sol[p].ref, 1, p - 1) = sol[p - 1].ref
=============================================================================
