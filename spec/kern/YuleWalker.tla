----------------------------- MODULE YuleWalker -----------------------------
(***************************************************************************)
(* C12: the Yule-Walker AR estimator = biased sample autocorrelation        *)
(* (Correlation.tla) followed by the Levinson recursion (LevFn.tla).        *)
(* After the data are complete (Correlation!Done), the action Solve stores  *)
(* the order-p model for every p < N in `sol`.                              *)
(*                                                                          *)
(* Envelope: for non-zero data the model is stable (|k_i| < 1, P > 0), its  *)
(* autocorrelation reproduces the sample autocorrelation on lags 0..p, and  *)
(* the coefficients solve the least-squares normal equations of the         *)
(* 'autocorrelation' data matrix (Gram = N * Toeplitz).                     *)
(***************************************************************************)
EXTENDS Correlation, LevFn

VARIABLE sol     \* sol[p] = [A, P, ref] of order p, p = 1..N-1, once solved

yvars == <<x, y, phase, out, sol>>

NonZero == ~RIsZero(out.biased[1][1])

YInit == Init /\ sol = <<>>

Solve == /\ phase = "done" /\ Auto /\ NN >= 2 /\ NonZero
         /\ phase' = "solved"
         /\ sol' = [p \in 1..(NN - 1) |-> Lev(out.biased, p)]
         /\ UNCHANGED <<x, y, out>>

YNext == (Next /\ UNCHANGED sol) \/ Solve
YSpec == YInit /\ [][YNext]_yvars

Solved == phase = "solved"

StableModel ==
    Solved => \A p \in 1..(NN - 1) :
                 /\ RPos(sol[p].P)
                 /\ \A i \in 1..p : RLt(CAbs2(sol[p].ref[i]), One)

\* the model's autocorrelation equals the sample autocorrelation on lags 0..p
MatchesAutocorrelation ==
    Solved => \A p \in 1..(NN - 1) :
                 AcOfRc(sol[p].ref, out.biased[1][1]) = SubSeq(out.biased, 1, p + 1)

\* normal equations of the least-squares problem on the 'autocorrelation' data matrix:
\*   sum_j Gram(i, j) a_j + Gram(i, 0) = 0   for i = 1..p
LeastSquares ==
    Solved => \A p \in 1..(NN - 1) : \A i \in 1..p :
                 CIsZero(CAdd(Gram(p, i, 0),
                              CSumSeq([j \in 1..p |-> CMul(Gram(p, i, j), sol[p].A[j])])))

Nested ==
    Solved => \A p \in 2..(NN - 1) : SubSeq(sol[p].ref, 1, p - 1) = sol[p - 1].ref
=============================================================================
