------------------------------- MODULE Carrier -------------------------------
(***************************************************************************)
(* A sample denotes its value, whatever container carries it.              *)
(*                                                                         *)
(* Every listed property is stated for "data": a sequence of numbers.  The *)
(* implementation receives those numbers in a container - a list of Python *)
(* ints, an ndarray of 8/16/32/64-bit signed or unsigned integers (audio   *)
(* files are int16, images uint8), single or double precision floats.  The *)
(* kernels are specified over exact numbers (Rat.tla), so the container is *)
(* not part of their state: a result is a function of the denoted values.  *)
(* In numpy the container is not innocent - a product of two int16 samples *)
(* is an int16 and wraps around - so this has to be checked.               *)
(*                                                                         *)
(* The specification is the carrier-free envelope: the state is a call     *)
(* token (function + parameters, chosen per property), a carrier, and a    *)
(* record profile (magnitude level L, signed values in -L..L or offset     *)
(* values in 0..L); a call returns the result determined by (token, level, *)
(* profile) alone.  TLC decides from the carrier ranges which (carrier,    *)
(* level, profile) combinations are admissible (every sample is exactly    *)
(* representable) and enumerates them; every state is replayed: the record *)
(* is built in that carrier, handed to the real function, and the result   *)
(* compared with the result for the same values carried as float64.        *)
(***************************************************************************)
EXTENDS Integers, FiniteSets, TLC

CONSTANTS NTokens,      \* call tokens 1..NTokens
          Levels        \* magnitude levels (positive integers < 2^31)

IntCarriers == {"int8", "uint8", "int16", "uint16", "int32", "uint32", "int64", "uint64", "list", "float32"}
\* the same double precision samples in another memory layout / wrapper (no range restriction; profile "real": non-integer values)
Layouts == {"readonly", "big-endian", "negative-stride", "column-of-2d", "longdouble", "list-float", "masked"}
Carriers == IntCarriers \cup Layouts
Profiles == {"signed", "offset", "real"}

Big == 2147483647       \* everything wider than 32 bits: unbounded as far as Levels go

Lo(c) == CASE c = "int8" -> -128 [] c = "int16" -> -32768 [] c = "int32" -> -Big - 1
           [] c \in {"uint8", "uint16", "uint32", "uint64"} -> 0
           [] c = "float32" -> -16777216          \* integers up to 2^24 are exact in single precision
           [] OTHER -> -Big - 1
Hi(c) == CASE c = "int8" -> 127 [] c = "uint8" -> 255 [] c = "int16" -> 32767 [] c = "uint16" -> 65535
           [] c = "float32" -> 16777216
           [] OTHER -> Big

\* every sample of the record is exactly representable in the carrier
Admissible(c, L, p) == IF c \in Layouts THEN p = "real" /\ L = 100
                       ELSE /\ p # "real"
                            /\ L <= Hi(c)
                            /\ p = "signed" => -L >= Lo(c)

\* the largest admissible level of a carrier/profile: where wrap-around shows first
Maximal(c, L, p) == Admissible(c, L, p) /\ \A M \in Levels : Admissible(c, M, p) => M <= L

(***************************************************************************)
(* Mechanism (what numpy does with narrow integers) against the envelope,  *)
(* on the one quantity every estimator starts from: the energy sum x_i^2   *)
(* of a two-sample record <<L, -(L div 2)>> resp. <<L, L div 2>>.  With    *)
(* Promote = FALSE each product and each partial sum is reduced into the   *)
(* range of the carrier (two's complement wrap-around), as the library did *)
(* before the repairs 664a343 / d84522a / b30c663 / 3cb7ef4; with Promote  *)
(* = TRUE the samples are converted to floating point first, as it does    *)
(* now.  MechanismIsExact holds for Promote = TRUE; TLC refutes it for     *)
(* Promote = FALSE (negative control in bin/selftest).  Carriers of up to  *)
(* 16 bits only: TLC integers are 32 bits wide.                            *)
(***************************************************************************)
CONSTANT Promote

Narrow == {"int8", "uint8", "int16"}
Wrap(v, c) == LET m == Hi(c) - Lo(c) + 1 IN ((v - Lo(c)) % m) + Lo(c)
Pair(L, p) == IF p # "offset" THEN <<L, -(L \div 2)>> ELSE <<L, L \div 2>>
ExactEnergy(L, p) == Pair(L, p)[1] * Pair(L, p)[1] + Pair(L, p)[2] * Pair(L, p)[2]
MechEnergy(c, L, p) ==
    IF Promote \/ c \notin Narrow THEN ExactEnergy(L, p)
    ELSE Wrap(Wrap(Pair(L, p)[1] * Pair(L, p)[1], c) + Wrap(Pair(L, p)[2] * Pair(L, p)[2], c), c)

VARIABLES phase,     \* "idle" | "called"
          call,      \* [token, carrier, level, profile]
          res        \* what the call returned, abstractly: the <<token, level, profile>> whose float64 result it equals

vars == <<phase, call, res>>

None == [none |-> TRUE]

Init == phase = "idle" /\ call = None /\ res = None

Call(t, c, L, p) ==
    /\ phase = "idle"
    /\ Admissible(c, L, p)
    /\ phase' = "called"
    /\ call' = [token |-> t, carrier |-> c, level |-> L, profile |-> p, maximal |-> Maximal(c, L, p)]
    /\ res' = <<t, L, p>>          \* the envelope: no dependence on c

Next == \E t \in 1..NTokens, c \in Carriers, L \in Levels, p \in Profiles : Call(t, c, L, p)
Spec == Init /\ [][Next]_vars

CarrierFree == phase = "called" => res = <<call.token, call.level, call.profile>>
MechanismIsExact == (phase = "called" /\ call.carrier \in Narrow) =>
                        MechEnergy(call.carrier, call.level, call.profile) = ExactEnergy(call.level, call.profile)
\* vacuity guards: every carrier has an admissible record (checked by the harness on the dump) and
\* the bounded carriers all have a maximal level above the square root of their range (products overflow)
EveryCarrierUsable == \A c \in Carriers : \E L \in Levels, p \in Profiles : Admissible(c, L, p)
ProductsWouldWrap == \A c \in {"int8", "uint8", "int16", "uint16", "int32", "uint32"} :
                        \E L \in Levels : Maximal(c, L, "offset") /\ L > Hi(c) \div L
ASSUME EveryCarrierUsable
ASSUME ProductsWouldWrap
=============================================================================
