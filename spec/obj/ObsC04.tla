------------------------------ MODULE ObsC04 ------------------------------
(***************************************************************************)
(* C04 on float data, per estimator class (deviations relative to the      *)
(* largest spectral value, units of 1e-9):                                 *)
(*  "shift":   complex data times exp(2 pi i m n/NFFT): the two-sided      *)
(*             estimate is rotated by exactly m bins (new[k] = old[k-m]);  *)
(*             best is the circular shift that aligns the two estimates    *)
(*             best (must be m mod NFFT), dev the residual at shift m      *)
(*  "mirror":  conjugated data: bin k <-> bin -k mod NFFT                  *)
(*  "onesided": real data: one-sided estimate = 2 x first half of the      *)
(*             two-sided estimate of the same samples declared complex     *)
(*             (AR / MA / ARMA, minimum variance, multitaper classes)      *)
(*  "reversal": conjugated time-reversed data give the same spectrum       *)
(*             (periodogram, correlogram, Yule-Walker, Burg, modified      *)
(*             covariance, multitaper, minimum variance only)              *)
(***************************************************************************)
EXTENDS ObsPrelude

Tol == 100        \* 1e-7 relative (worst rounding error measured on the repaired tree: 1e-12)

OneSidedDoubling == {"pburg", "pyule", "pcovar", "pmodcovar", "parma", "pma", "pminvar", "MultiTapering",
                     "MultiTapering:adapt", "MultiTapering:unity", "MultiTapering:precomputed"}
ReversalInvariant == {"Periodogram", "pcorrelogram", "pyule", "pburg", "pmodcovar", "MultiTapering", "pminvar",
                      "MultiTapering:adapt", "MultiTapering:unity", "MultiTapering:precomputed"}
\* the periodogram class with any named window ("Periodogram:<window>"): every window is symmetric (C20)

Clauses(e) ==
    IF e.ev = "shift" THEN
        { <<"no-exception", ~e.raised>>,
          <<"rotates-by-m-bins", e.raised \/ Small(e.dev, Tol)>>,
          <<"best-aligning-shift-is-m", e.raised \/ e.flat \/ e.best = e.m % e.nfft>> }
    ELSE IF e.ev = "mirror" THEN
        { <<"no-exception", ~e.raised>>, <<"conjugation-mirrors-bins", e.raised \/ Small(e.dev, Tol)>> }
    ELSE IF e.ev = "onesided" THEN
        { <<"no-exception", ~e.raised>>,
          <<"onesided-is-twice-the-first-half", e.raised \/ e.cls \notin OneSidedDoubling \/ Small(e.dev, Tol)>> }
    ELSE IF e.ev = "reversal" THEN
        { <<"no-exception", ~e.raised>>,
          <<"time-reversal-invariant", e.raised \/ (e.cls \notin ReversalInvariant /\ ~e.periodogram) \/ Small(e.dev, Tol)>> }
    ELSE IF e.ev = "dtype" THEN
        \* single-precision complex samples are complex data: a two-sided estimate close to the double-precision one
        { <<"no-exception", ~e.raised>>,
          <<"complex64-is-complex-data", e.raised \/ (e.len_ok /\ Small(e.dev, 1000000))>> }
    ELSE { <<"unknown-event", FALSE>> }

VARIABLES l, fails
Init == l = 1 /\ fails = {}
Next == /\ l <= Len(Trace)
        /\ l' = l + 1
        /\ fails' = Failed(Clauses(Trace[l]))
Spec == Init /\ [][Next]_<<l, fails>>
=============================================================================
