------------------------------ MODULE ObsC03 ------------------------------
(***************************************************************************)
(* C03: estimates are quadratic in the signal amplitude.                   *)
(* The driver evaluates every estimator (function and class form) on x and *)
(* on c*x (|c| log-uniform in [1e-3, 1e3], complex c for complex data) and *)
(* logs, per output, the relative deviation (1e-9 units) from the three    *)
(* candidate laws  out(cx) = |c|^e out(x), e in {0, 1, 2}  (and, for the   *)
(* eigenspectra, from the linear law out(cx) = c out(x)).  This module     *)
(* holds the table: which law each output must follow.                     *)
(***************************************************************************)
EXTENDS ObsPrelude

Tol == 1000        \* 1e-6 relative

\* exponent required of output `key` of estimator `est` (3 = linear in c)
Law(est, key) ==
    IF key \in {"ar", "ma", "reflection", "weights", "taper_eigenvalues", "r_coeff", "pseudo_music"} THEN 0
    ELSE IF key \in {"sv", "pseudo_ev"} THEN 1
    ELSE IF key = "eigenspectra" THEN 3
    ELSE IF key = "psd" THEN (IF est = "pmusic" THEN 0 ELSE IF est = "pev" THEN 1 ELSE 2)
    ELSE (* rho, r_biased, r_unbiased *) 2

Dev(e) == LET w == Law(e.est, e.key) IN
          IF w = 0 THEN e.dev0 ELSE IF w = 1 THEN e.dev1 ELSE IF w = 2 THEN e.dev2 ELSE e.devlin

Clauses(e) ==
    IF e.ev = "scaling" THEN
        { <<"no-exception", ~e.raised>>,
          <<"amplitude-law", e.raised \/ Small(Dev(e), Tol)>>,
          <<"same-shape", e.raised \/ e.same_shape>> }
    ELSE IF e.ev = "decision" THEN
        { <<"no-exception", ~e.raised>>,
          <<"decision-unchanged", e.raised \/ e.a = e.b>> }
    ELSE { <<"unknown-event", FALSE>> }

VARIABLES l, fails
Init == l = 1 /\ fails = {}
Next == /\ l <= Len(Trace)
        /\ l' = l + 1
        /\ fails' = Failed(Clauses(Trace[l]))
Spec == Init /\ [][Next]_<<l, fails>>
=============================================================================
