----------------------------- MODULE ClassLayout -----------------------------
(***************************************************************************)
(* C02 (structural half): what every PSD class must report after a default *)
(* computation, as a function of the datatype, the data length N and the   *)
(* NFFT argument (None = N, 'nextpow2', an integer):                       *)
(*   resolved NFFT, default layout (one-sided for real data, two-sided for *)
(*   complex data), number of values = number of frequencies, and the bin  *)
(*   carried by each entry (entry j carries bin j-1: frequency             *)
(*   (j-1)*sampling/NFFT).  Axis.tla and SpectrumAbs!Resolve are reused.   *)
(* Each initial state is one configuration; the harness constructs every   *)
(* class on it and compares psd / frequencies() / NFFT / sides.            *)
(***************************************************************************)
EXTENDS Axis, TLC

CONSTANTS Lengths, NfftArgs      \* data lengths; NFFT arguments (0 = None, 1 = 'nextpow2', else integer)

VARIABLES dt, N, arg, nfft, sides, len, bins

vars == <<dt, N, arg, nfft, sides, len, bins>>

RECURSIVE Pow2AtLeast(_, _)
Pow2AtLeast(p, n) == IF p >= n THEN p ELSE Pow2AtLeast(2 * p, n)
Resolve(a, n) == IF a = 0 THEN n ELSE IF a = 1 THEN Pow2AtLeast(1, n) ELSE a

Init == /\ dt \in {"real", "complex"}
        /\ N \in Lengths
        /\ arg \in NfftArgs
        /\ nfft = Resolve(arg, N)
        /\ nfft >= N
        /\ sides = DefaultSides(dt)
        /\ len = SLen(sides, nfft)
        /\ bins = [j \in 1..len |-> Bin(sides, nfft, j)]
Next == UNCHANGED vars
Spec == Init /\ [][Next]_vars

\* the statement of C02: NFFT/2+1 (even) or (NFFT+1)/2 (odd) values for real data, NFFT for complex
LengthRule ==
    len = IF dt = "complex" THEN nfft
          ELSE IF nfft % 2 = 0 THEN nfft \div 2 + 1 ELSE (nfft + 1) \div 2
BinsAreGrid == \A j \in 1..len : bins[j] = j - 1
\* one-sided axes stop at or before the Nyquist bin
OneSidedBelowNyquist == dt = "real" => 2 * bins[len] <= nfft
=============================================================================
