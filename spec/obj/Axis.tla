-------------------------------- MODULE Axis --------------------------------
(***************************************************************************)
(* Frequency axes and storage layouts of psd.py / tools.py, as pure        *)
(* integer arithmetic.  A PSD over an NFFT-point grid is stored in one of  *)
(* three layouts:                                                          *)
(*   "twosided" : n entries, entry j (1-based) carries bin j-1             *)
(*   "onesided" : OneLen(n) entries, entry j carries bin j-1 (real data)   *)
(*   "centerdc" : n entries, entry j carries bin (j-1) - n \div 2          *)
(* Bin b stands for the physical frequency b*sampling/n; bins are equal    *)
(* modulo n.  The conversions below are the unique linear maps satisfying  *)
(* C06 (same frequency modulo the sampling rate, one-sided interior values *)
(* split equally between +f and -f, total power preserved).               *)
(*                                                                         *)
(* Vectors are sequences of integers: a one-sided interior value is halved *)
(* when unfolded, so the model starts from even values and every reachable *)
(* value stays an integer (halving never happens twice in a row because    *)
(* folding adds the two halves back).                                      *)
(***************************************************************************)
EXTENDS AxisIdx, Sequences

\* ---- the four elementary conversions (v is a sequence over the source layout)
T2C(n, v) == [j \in 1..n |-> v[ShiftIdx(n, j - 1) + 1]]
C2T(n, v) == [k \in 1..n |-> v[UnshiftIdx(n, k - 1) + 1]]

\* unfold: T[0] = O[0]; T[k] = T[n-k] = O[k]/2 for interior k; T[n/2] = O[n/2]
O2T(n, o) == [k1 \in 1..n |->
                LET k == k1 - 1
                    f == IF k < OneLen(n) THEN k ELSE n - k     \* folded bin
                IN  IF f = 0 \/ IsNyquist(n, f) THEN o[f + 1] ELSE o[f + 1] \div 2]

\* fold: O[0] = T[0]; O[k] = T[k] + T[n-k] for interior k; O[n/2] = T[n/2]
T2O(n, t) == [k1 \in 1..OneLen(n) |->
                LET k == k1 - 1
                IN  IF k = 0 \/ IsNyquist(n, k) THEN t[k + 1] ELSE t[k + 1] + t[(n - k) + 1]]

Conv(from, to, n, v) ==
    IF from = to THEN v
    ELSE IF from = "twosided" /\ to = "centerdc" THEN T2C(n, v)
    ELSE IF from = "centerdc" /\ to = "twosided" THEN C2T(n, v)
    ELSE IF from = "onesided" /\ to = "twosided" THEN O2T(n, v)
    ELSE IF from = "twosided" /\ to = "onesided" THEN T2O(n, v)
    ELSE IF from = "onesided" /\ to = "centerdc" THEN T2C(n, O2T(n, v))
    ELSE (* centerdc -> onesided *)                  T2O(n, C2T(n, v))

RECURSIVE SumSeq(_)
SumSeq(s) == IF s = <<>> THEN 0 ELSE Head(s) + SumSeq(Tail(s))

=============================================================================
