---------------------------- MODULE ObsPrelude ----------------------------
(***************************************************************************)
(* Common part of the observation-event trace specifications.             *)
(*                                                                         *)
(* The drivers run the real code on inputs far outside the exact universe  *)
(* and log one *observation event* per call: a record of discrete or       *)
(* quantised facts (lengths, indices, signs, booleans, integers obtained   *)
(* by quantising a residual).  An Obs<Property>.tla module EXTENDS this    *)
(* one, defines Clauses(e) - the set of <<clause name, truth value>> the   *)
(* property requires of event e (the case analysis lives in TLA+) - and    *)
(* the trace machinery below consumes the whole batch, one event per step, *)
(* collecting <<index, failed clause names>>; verdicts are total: a failed *)
(* event never stops the validation of the following ones.                 *)
(***************************************************************************)
EXTENDS Integers, Sequences, FiniteSets, TLC, Json, IOUtils

Trace == ndJsonDeserialize(IOEnv.TRACE_FILE)

Has(e, f) == f \in DOMAIN e

\* quantised residuals are integers in units of 1e-9 (capped by the driver)
Small(q, lim) == q <= lim /\ q >= -lim

Failed(cl) == {c[1] : c \in {c \in cl : ~c[2]}}

\* sequence helpers on JSON arrays (TLA+ sequences)
AllSeq(s, P(_)) == \A i \in 1..Len(s) : P(s[i])
NonIncreasing(s) == \A i \in 1..(Len(s) - 1) : s[i] >= s[i + 1]
StrictlyIncreasing(s) == \A i \in 1..(Len(s) - 1) : s[i] < s[i + 1]
Max(a, b) == IF a >= b THEN a ELSE b
Min(a, b) == IF a <= b THEN a ELSE b
AbsI(x) == IF x < 0 THEN -x ELSE x
CeilDiv(a, b) == (a + b - 1) \div b
=============================================================================
