----------------------------- MODULE SidesConv -----------------------------
(***************************************************************************)
(* C06: the life of a *stored* PSD under side conversions.                 *)
(*                                                                         *)
(* A Spectrum object holds a vector in layout `sides`.  The user stores a  *)
(* vector in the default layout (one-sided for real data, two-sided for    *)
(* complex data), then assigns `sides` repeatedly (each assignment         *)
(* converts the stored vector - the mechanism composes pairwise            *)
(* conversions) and may call get_converted_psd(s) at any point (pure).     *)
(*                                                                         *)
(* By linearity it suffices to store basis vectors (value 2 at entry b).   *)
(* hist records the assignments made so far: each state is a replayable    *)
(* script for the real object.                                             *)
(*                                                                         *)
(* Invariants = the clauses of C06, evaluated against the *direct*         *)
(* conversion from the original vector (path independence), the axis       *)
(* (frequency alignment) and the total power.                              *)
(***************************************************************************)
EXTENDS Axis, TLC

CONSTANTS MaxN, MaxHist

VARIABLES n, dt, b, sides, vec, hist

vars == <<n, dt, b, sides, vec, hist>>

Basis(len, k) == [j \in 1..len |-> IF j = k THEN 2 ELSE 0]

Init == /\ n \in 1..MaxN
        /\ dt \in {"real", "complex"}
        /\ sides = DefaultSides(dt)
        /\ b \in 1..SLen(DefaultSides(dt), n)
        /\ vec = Basis(SLen(sides, n), b)
        /\ hist = <<>>

SetSides(s) == /\ Len(hist) < MaxHist
               /\ s \in Allowed(dt)
               /\ vec' = Conv(sides, s, n, vec)
               /\ sides' = s
               /\ hist' = Append(hist, s)
               /\ UNCHANGED <<n, dt, b>>

Next == \E s \in Sides : SetSides(s)

Spec == Init /\ [][Next]_vars

Orig == Basis(SLen(DefaultSides(dt), n), b)

\* what get_converted_psd(s) must return in the current state
Converted(s) == Conv(sides, s, n, vec)

---------------------------------------------------------------------------
LengthConsistent == Len(vec) = SLen(sides, n)

PowerPreserved == SumSeq(vec) = SumSeq(Orig)

\* any sequence of conversions ending at `sides` equals the direct conversion
PathIndependent == vec = Conv(DefaultSides(dt), sides, n, Orig)

\* in particular returning to the original sides restores the original values
RoundTrip == (sides = DefaultSides(dt)) => vec = Orig

\* the pure conversion agrees with assigning and reading
ConvertedConsistent ==
    \A s \in Allowed(dt) : Converted(s) = Conv(DefaultSides(dt), s, n, Orig)

\* every non-zero entry sits at a frequency equal (mod sampling) to the source
\* frequency, up to sign for real data
AxisAligned ==
    LET src == Bin(DefaultSides(dt), n, b)
    IN  \A j \in 1..Len(vec) :
          vec[j] # 0 =>
             LET bj == Bin(sides, n, j)
             IN  IF dt = "real" THEN FoldBin(n, bj) = FoldBin(n, src)
                               ELSE (bj - src) % n = 0

\* interior one-sided values are split equally between +f and -f
EqualSplit ==
    (dt = "real" /\ sides # "onesided") =>
        \A j, k \in 1..Len(vec) :
            (vec[j] # 0 /\ vec[k] # 0) => vec[j] = vec[k]
=============================================================================
