------------------------------ MODULE ObsC20 ------------------------------
(***************************************************************************)
(* C20, generic clauses for every window name and every length:            *)
(*  "samples": N <= 64: the samples themselves, quantised to 1e-6          *)
(*      (q[i], with finite flags), and TLC checks length, symmetry,        *)
(*      max <= 1, centre = 1 for odd N >= 3, non-zero sum                  *)
(*  "summary": larger N and shape-parameter sweeps: the same facts         *)
(*      measured by the driver (1e-9 units) plus ENBW >= 1 and the         *)
(*      consistency of the Window object with create_window                *)
(* The periodic flat-top mode is exempt from the symmetry clause.          *)
(***************************************************************************)
EXTENDS ObsPrelude

Mega == 1000000
Slack == 2             \* 2e-6 on quantised samples

SeqSum(s) == LET F[i \in 0..Len(s)] == IF i = 0 THEN 0 ELSE F[i - 1] + s[i] IN F[Len(s)]

Clauses(e) ==
    IF e.ev = "samples" THEN
        { <<"no-exception", ~e.raised>>,
          <<"length", e.raised \/ Len(e.q) = e.N>>,
          <<"finite-real", e.raised \/ e.finite>>,
          <<"symmetric", e.raised \/ ~e.finite \/ e.periodic \/ Len(e.q) # e.N \/
                \A i \in 1..e.N : Small(e.q[i] - e.q[(e.N + 1) - i], Slack)>>,
          <<"max-at-most-one", e.raised \/ ~e.finite \/ \A i \in 1..Len(e.q) : e.q[i] <= Mega + Slack>>,
          <<"centre-is-one", e.raised \/ ~e.finite \/ e.periodic \/ e.N % 2 = 0 \/ e.N < 3 \/ Len(e.q) # e.N \/
                Small(e.q[(e.N + 1) \div 2] - Mega, Slack)>> }
    ELSE IF e.ev = "summary" THEN
        { <<"no-exception", ~e.raised>>,
          <<"length", e.raised \/ e.len = e.N>>,
          <<"finite-real", e.raised \/ e.finite>>,
          <<"symmetric", e.raised \/ ~e.finite \/ e.periodic \/ Small(e.sym_dev, 1000)>>,
          <<"max-at-most-one", e.raised \/ ~e.finite \/ e.max_q <= 1000000000 + 1000>>,
          <<"centre-is-one", e.raised \/ ~e.finite \/ e.periodic \/ e.N % 2 = 0 \/ e.N < 3 \/ Small(e.centre_q - 1000000000, 1000)>>,
          <<"enbw-at-least-one", e.raised \/ ~e.finite \/ e.N < 3 \/ e.enbw_q >= 1000000000 - 1000>>,
          <<"window-object-consistent", e.raised \/ ~e.finite \/ e.object_ok>> }
    ELSE IF e.ev = "formula" THEN
        \* parametrised windows at the ends of their parameter ranges (Tukey r next to 0 and 1, Kaiser beta up to 600,
        \* Taylor nbar up to 24): the closed form, evaluated independently in floating point (dev in 1e-9 units)
        { <<"no-exception", ~e.raised>>,
          <<"length", e.raised \/ e.len = e.N>>,
          <<"equals-the-closed-form", e.raised \/ e.len # e.N \/ Small(e.dev, 100)>>,
          <<"symmetric", e.raised \/ e.len # e.N \/ Small(e.sym_dev, 100)>> }
    ELSE { <<"unknown-event", FALSE>> }

VARIABLES l, fails
Init == l = 1 /\ fails = {}
Next == /\ l <= Len(Trace)
        /\ l' = l + 1
        /\ fails' = Failed(Clauses(Trace[l]))
Spec == Init /\ [][Next]_<<l, fails>>
=============================================================================
