---------------------------- MODULE SpectrumPair ----------------------------
(***************************************************************************)
(* Two estimator objects alive at the same time.  The envelope of each is  *)
(* SpectrumAbs; the only new obligation is the FRAME condition: an         *)
(* operation on one object leaves every observable of the other object     *)
(* (attributes, df, frequencies()) unchanged.  Every listed property       *)
(* quantifies over "an estimator object"; none of them allows a second     *)
(* object to matter, so the frame condition is part of each of them (C07:  *)
(* df = sampling/NFFT of THIS object; C02: the axis THIS object reports;   *)
(* C15: the coefficients THIS object exposes).                             *)
(*                                                                         *)
(* The implementation can break it through state that is not per instance: *)
(* a class-level helper object (a shared Range), a class-level dictionary  *)
(* of estimates, a module-level cache.  The mechanism switch SharedAxis     *)
(* models the first one: both objects read their axis from one shared      *)
(* <<samp, nfft>> pair written by whoever was touched last; with the       *)
(* switch on TLC reports the frame violation after two steps.              *)
(*                                                                         *)
(* Binding: interleaved random walks over two real objects are recorded    *)
(* (one event per operation, carrying the projection of the OTHER object   *)
(* before and after) and validated by SpectrumTrace.tla, clause            *)
(* "other-live-objects-unaffected".                                        *)
(***************************************************************************)
EXTENDS Integers, Sequences, TLC

CONSTANTS Ops,          \* set of <<op, arg>> pairs
          Init1, Init2, \* initial attribute records of the two objects
          SharedAxis    \* mechanism switch: one Range object for both instances (a defect)

VARIABLES objs,        \* objs[i]: attribute record of object i
          axis,        \* axis[i]: what object i reports (<<samp, nfft, lenf>> record)
          shared       \* the shared Range when SharedAxis

Abs == INSTANCE SpectrumAbs WITH a <- objs, ret <- objs, axis <- axis

vars == <<objs, axis, shared>>

AxisNow(i, o, sh) == IF SharedAxis THEN [samp |-> sh.samp, nfft |-> sh.nfft, lenf |-> Abs!SLen(o[i].sides, sh.nfft)]
                     ELSE Abs!AxisOf(o[i])

Init == /\ objs = <<Init1, Init2>>
        /\ shared = [samp |-> Init2.samp, nfft |-> Init2.nfft]      \* written by the object constructed last
        /\ axis = [i \in 1..2 |-> AxisNow(i, objs, shared)]

DoOn(i, op, arg) ==
    \E na \in Abs!Succ(objs[i], op, arg) :
        /\ objs' = [objs EXCEPT ![i] = na]
        /\ shared' = IF op \in {"SetNFFT", "SetSampling", "SetData"} THEN [samp |-> na.samp, nfft |-> na.nfft] ELSE shared
        /\ axis' = [j \in 1..2 |-> AxisNow(j, objs', shared')]

Next == \E i \in 1..2 : \E o \in Ops : DoOn(i, o[1], o[2])
Spec == Init /\ [][Next]_vars

\* the frame condition, as an action property: a step changes the observables of at most one object
Frame == [][\A i \in 1..2 : (objs'[i] # objs[i] \/ axis'[i] # axis[i]) =>
                 (\A j \in 1..2 : j # i => (objs'[j] = objs[j] /\ axis'[j] = axis[j]))]_vars
\* every object always reports its own axis
OwnAxis == \A i \in 1..2 : axis[i] = Abs!AxisOf(objs[i])
=============================================================================
