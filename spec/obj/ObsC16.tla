------------------------------ MODULE ObsC16 ------------------------------
(***************************************************************************)
(* C16 at realistic sizes (N up to 128, m up to 16): minvar against        *)
(* T / (e^H R^-1 e) with R built from the Burg reflection coefficients     *)
(* (relative deviation, 1e-9 units), positivity, returned AR vector with   *)
(* leading 1 and reflection coefficients of the order m-1 Burg model.      *)
(* Ill-conditioned R (cond >= 1e8) only requires positivity.               *)
(***************************************************************************)
EXTENDS ObsPrelude

Tol == 10000
Clauses(e) ==
    { <<"no-exception", ~e.raised>>,
      <<"equals-T-over-quadratic-form", e.raised \/ ~e.cond_ok \/ Small(e.psd_dev, Tol)>>,
      <<"real-strictly-positive", e.raised \/ e.positive>>,
      <<"returns-burg-ar-vector", e.raised \/ Small(e.ar_dev, 1000)>>,
      <<"returns-burg-reflection", e.raised \/ Small(e.k_dev, 1000)>>,
      <<"reflection-coefficients-minimise-each-stage", e.raised \/ Small(e.min_dev, 1000)>>,
      <<"lengths", e.raised \/ e.len_ok>> }

VARIABLES l, fails
Init == l = 1 /\ fails = {}
Next == /\ l <= Len(Trace)
        /\ l' = l + 1
        /\ fails' = Failed(Clauses(Trace[l]))
Spec == Init /\ [][Next]_<<l, fails>>
=============================================================================
