------------------------------- MODULE AxisIdx -------------------------------
(***************************************************************************)
(* The index arithmetic of the storage layouts (no sequences, no recursion: *)
(* this part is also the subject of the TLAPS proofs in AxisProofs.tla).    *)
(***************************************************************************)
EXTENDS Integers

Sides == {"onesided", "twosided", "centerdc"}

OneLen(n) == IF n % 2 = 0 THEN n \div 2 + 1 ELSE (n + 1) \div 2
SLen(s, n) == IF s = "onesided" THEN OneLen(n) ELSE n

\* signed bin carried by entry j (1-based) of layout s
Bin(s, n, j) == IF s = "centerdc" THEN (j - 1) - n \div 2 ELSE j - 1

DefaultSides(dt) == IF dt = "real" THEN "onesided" ELSE "twosided"
Allowed(dt) == IF dt = "real" THEN Sides ELSE {"twosided", "centerdc"}

IsNyquist(n, k) == n % 2 = 0 /\ k = n \div 2        \* k is a 0-based bin

\* 0-based index maps of the rotation (proved mutually inverse for every n in AxisProofs.tla)
ShiftIdx(n, j)   == (j - n \div 2) % n        \* two-sided index read by centred entry j
UnshiftIdx(n, k) == (k + n \div 2) % n        \* centred index read by two-sided entry k

\* |bin| folded into 0..n/2 (what a one-sided axis shows)
FoldBin(n, b) == LET m == b % n IN IF m < OneLen(n) THEN m ELSE n - m
=============================================================================
