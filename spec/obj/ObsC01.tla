------------------------------ MODULE ObsC01 ------------------------------
(***************************************************************************)
(* C01 on float data (N up to 512, constant / integer / large dynamic      *)
(* range, every window name, even / odd / prime NFFT):                     *)
(*  "parseval": mean of the NFFT periodogram values of complex data equals *)
(*      sum|x*w|^2 / N; NFFT values for complex data, NFFT/2+1 for real    *)
(*      data which are the first bins of the same data declared complex;   *)
(*      the class returns what the function returns                        *)
(*  "wk": rectangular window, lag N-1, biased, NFFT >= 2N-1: correlogram = *)
(*      periodogram.   Deviations relative, units of 1e-9.                 *)
(***************************************************************************)
EXTENDS ObsPrelude

Tol == 1000
Clauses(e) ==
    IF e.ev = "parseval" THEN
        { <<"no-exception", ~e.raised>>,
          <<"parseval", e.raised \/ e.skip \/ Small(e.parseval_dev, Tol)>>,
          <<"number-of-bins", e.raised \/ e.skip \/ e.len_ok>>,
          <<"class-equals-function", e.raised \/ e.skip \/ Small(e.class_dev, Tol)>>,
          <<"real-data-bins-are-the-first-half", e.raised \/ e.skip \/ Small(e.real_prefix_dev, Tol)>> }
    ELSE IF e.ev = "bins" THEN
        \* the definition at every bin: the worst bin error relative to the per-bin error model (1e-3 units)
        { <<"no-exception", ~e.raised>>,
          <<"number-of-bins", e.raised \/ e.len_ok>>,
          <<"every-bin-equals-the-definition", e.raised \/ ~e.len_ok \/ e.bin_ratio <= 1000>> }
    ELSE IF e.ev = "wk" THEN
        { <<"no-exception", ~e.raised>>,
          <<"wiener-khinchin", e.raised \/ Small(e.wk_dev, Tol)>> }
    ELSE { <<"unknown-event", FALSE>> }

VARIABLES l, fails
Init == l = 1 /\ fails = {}
Next == /\ l <= Len(Trace)
        /\ l' = l + 1
        /\ fails' = Failed(Clauses(Trace[l]))
Spec == Init /\ [][Next]_<<l, fails>>
=============================================================================
