------------------------------ MODULE ObsC14 ------------------------------
(***************************************************************************)
(* C14 at realistic sizes (N up to 128, orders up to 20).  Per call:       *)
(*   residual orthogonal to every regressor of the corrmtx data matrix,    *)
(*   returned error = squared norm of the residual (relative, 1e-9 units), *)
(*   noiseless exponentials: every true frequency is a root of the         *)
(*   polynomial and the error vanishes; the fast (Marple) recursion gives  *)
(*   the same coefficients and the per-sample minimum wherever defined.    *)
(***************************************************************************)
EXTENDS ObsPrelude

Tol == 10000      \* 1e-5 relative (least squares on float data)
Clauses(e) ==
    { <<"no-exception", ~e.raised>>,
      <<"residual-orthogonal-to-regressors", e.raised \/ Small(e.orth_dev, Tol)>>,
      <<"error-is-the-minimum", e.raised \/ Small(e.err_dev, Tol)>>,
      <<"p-coefficients", e.raised \/ e.len_ok>>,
      \* the minimiser is unique when the regressors have full rank: compare the coefficients themselves, to the
      \* accuracy the condition number allows (cond_k = cond/1e3: tolerance cond * 1e-12, at least 1e-7; cond > 1e9 exempt)
      <<"coefficients-of-the-unique-minimiser", e.raised \/ ~e.len_ok \/ e.cond_k > 1000000 \/ e.coef_dev <= Max(100, e.cond_k)>>,
      <<"recovers-noiseless-exponentials", e.raised \/ ~e.noiseless \/ (Small(e.freq_dev, 100000) /\ Small(e.err_rel, Tol))>>,
      <<"fast-recursion-defined", e.raised \/ e.fast_defined>>,
      <<"fast-recursion-same-solution", e.raised \/ (Small(e.fast_dev, 100000) /\ e.fast_tail_zero)>> }

VARIABLES l, fails
Init == l = 1 /\ fails = {}
Next == /\ l <= Len(Trace)
        /\ l' = l + 1
        /\ fails' = Failed(Clauses(Trace[l]))
Spec == Init /\ [][Next]_<<l, fails>>
=============================================================================
