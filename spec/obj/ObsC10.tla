------------------------------ MODULE ObsC10 ------------------------------
(***************************************************************************)
(* Observation events for C10 beyond the exact universe (orders up to 40): *)
(* what the property requires of each recorded call, as a case analysis.   *)
(*  ev = "levinson": kind in {"pd","indef"}, n = order, residual of        *)
(*       T[1,a] - [P,0..] and of the product formula (units of 1e-9,       *)
(*       relative to r0), max |k| in 1e-6 units, stability, nesting.       *)
(*  ev = "solver":   which routine, residual of T x - z.                   *)
(***************************************************************************)
EXTENDS ObsPrelude

Tol == 1000        \* 1e-6 relative

Clauses(e) ==
    IF e.ev = "levinson" THEN
        IF e.kind = "pd" THEN
            { <<"accepts-pd", ~e.raised>>,
              <<"toeplitz-equation", e.raised \/ Small(e.resid, Tol)>>,
              <<"product-formula", e.raised \/ Small(e.pform, Tol)>>,
              <<"P-positive", e.raised \/ e.ppos>>,
              <<"reflection-below-one", e.raised \/ e.maxk_ppm < 1000000>>,
              <<"stable-polynomial", e.raised \/ e.stable>>,
              <<"nested", e.raised \/ Small(e.nest, Tol)>>,
              <<"lengths", e.raised \/ (e.len_a = e.n /\ e.len_k = e.n)>>,
              <<"real-in-real-out", e.raised \/ e.cplx \/ e.realout>> }
        ELSE
            { <<"rejects-indefinite", e.raised>>,
              <<"allow-singularity-does-not-raise", ~e.raised_allow>> }
    ELSE IF e.ev = "solver" THEN
        { <<"accepts-admissible", ~e.raised>>,
          <<"solves", e.raised \/ Small(e.resid, 10 * Tol)>>,
          <<"length", e.raised \/ e.len_x = e.n>> }
    ELSE { <<"unknown-event", FALSE>> }

VARIABLES l, fails      \* fails: clauses failed by the event just consumed
Init == l = 1 /\ fails = {}
Next == /\ l <= Len(Trace)
        /\ l' = l + 1
        /\ fails' = Failed(Clauses(Trace[l]))
Spec == Init /\ [][Next]_<<l, fails>>
=============================================================================
