----------------------------- MODULE AxisProofs -----------------------------
(***************************************************************************)
(* Unbounded (all NFFT) arithmetic facts behind Axis.tla, proved with      *)
(* TLAPS: the index maps of the two-sided <-> centred conversions are      *)
(* mutually inverse permutations of 0..n-1, and the one-sided length rule. *)
(*   ShiftIdx(n, j)   = (j - n div 2) mod n   index read by T2C at entry j    *)
(*   UnshiftIdx(n, k) = (k + n div 2) mod n   index read by C2T at entry k    *)
(***************************************************************************)
EXTENDS AxisIdx, TLAPS

THEOREM ShiftInRange == \A n \in Nat \ {0} : \A j \in 0..(n - 1) : ShiftIdx(n, j) \in 0..(n - 1)
  BY DEF ShiftIdx

THEOREM UnshiftInRange == \A n \in Nat \ {0} : \A k \in 0..(n - 1) : UnshiftIdx(n, k) \in 0..(n - 1)
  BY DEF UnshiftIdx

THEOREM UnshiftShift == \A n \in Nat \ {0} : \A j \in 0..(n - 1) : UnshiftIdx(n, ShiftIdx(n, j)) = j
  BY DEF ShiftIdx, UnshiftIdx

THEOREM ShiftUnshift == \A n \in Nat \ {0} : \A k \in 0..(n - 1) : ShiftIdx(n, UnshiftIdx(n, k)) = k
  BY DEF ShiftIdx, UnshiftIdx

\* folding loses nothing: interior bins k and n-k pair up, so 2*OneLen(n) - (1 or 2) = n
THEOREM OneLenCount == \A n \in Nat \ {0} :
    IF n % 2 = 0 THEN 2 * OneLen(n) - 2 = n ELSE 2 * OneLen(n) - 1 = n
  BY DEF OneLen

\* the centred axis -(n div 2) .. -(n div 2)+n-1 contains bin 0 and stays within half the grid
THEOREM CentredAxis == \A n \in Nat \ {0} :
    /\ 0 - n \div 2 <= 0 /\ 0 <= (n - 1) - n \div 2
    /\ 2 * (n \div 2) <= n /\ 2 * ((n - 1) - n \div 2) < n
  OBVIOUS
=============================================================================
