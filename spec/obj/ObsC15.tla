------------------------------ MODULE ObsC15 ------------------------------
(***************************************************************************)
(* C15 on float data (N 16..256), in the documented domains                *)
(*   ma:   0 < Q < M < N                                                   *)
(*   arma: Q <= lag, lag + 2P - Q <= N, 2Q < N - P                         *)
(*  "ma":    Q coefficients, zeros inside the unit circle (max modulus in  *)
(*           1e-6 units), positive finite variance                         *)
(*  "arma":  exactly P AR and Q MA coefficients, MA zeros inside the unit  *)
(*           circle, positive finite variance; for P = Q the AR part       *)
(*           satisfies the normal equations of the modified Yule-Walker    *)
(*           least-squares problem over unbiased lags Q+1..lag             *)
(*  "class": PSD of every AR/MA/ARMA class strictly positive and finite,   *)
(*           proportional to |B|^2/|A|^2 of the exposed coefficients, the  *)
(*           constant being rho/sampling (x2 one-sided) when rho is exposed*)
(***************************************************************************)
EXTENDS ObsPrelude

Tol == 1000

InDomainMa(e) == 0 < e.Q /\ e.Q < e.M /\ e.M < e.N
InDomainArma(e) == e.Q <= e.lag /\ e.lag + 2 * e.P - e.Q <= e.N /\ 2 * e.Q < e.N - e.P

Clauses(e) ==
    IF e.ev = "ma" THEN
        { <<"no-exception", ~InDomainMa(e) \/ ~e.raised>>,
          <<"Q-coefficients", ~InDomainMa(e) \/ e.raised \/ e.len_ma = e.Q>>,
          <<"zeros-inside-unit-circle", ~InDomainMa(e) \/ e.raised \/ e.maxzero_ppm < 1000000>>,
          <<"variance-positive-finite", ~InDomainMa(e) \/ e.raised \/ e.rho_ok>> }
    ELSE IF e.ev = "arma" THEN
        { <<"no-exception", ~InDomainArma(e) \/ ~e.raised>>,
          <<"P-ar-coefficients", ~InDomainArma(e) \/ e.raised \/ e.len_ar = e.P>>,
          <<"Q-ma-coefficients", ~InDomainArma(e) \/ e.raised \/ e.len_ma = e.Q>>,
          <<"ma-zeros-inside-unit-circle", ~InDomainArma(e) \/ e.raised \/ e.maxzero_ppm < 1000000>>,
          <<"variance-positive-finite", ~InDomainArma(e) \/ e.raised \/ e.rho_ok>>,
          <<"modified-yule-walker-least-squares", ~InDomainArma(e) \/ e.raised \/ e.P # e.Q \/ Small(e.myw_dev, 100 * Tol)>>,
          \* ... stated as optimality: no coefficient vector leaves a smaller residual (1e-9 units of |y|^2)
          \* ... and as uniqueness: the coefficients are those of the (full rank) least-squares problem, to the accuracy
          \* its condition number allows (cond_k = cond/1e3; tolerance cond * 1e-12, at least 1e-7)
          <<"modified-yule-walker-coefficients", ~InDomainArma(e) \/ e.raised \/ e.P # e.Q \/ ~Has(e, "coef_dev") \/
                e.cond_k > 1000000 \/ e.coef_dev <= Max(100, e.cond_k)>>,
          <<"modified-yule-walker-residual-is-minimal", ~InDomainArma(e) \/ e.raised \/ e.P # e.Q \/ ~Has(e, "gap_dev") \/ Small(e.gap_dev, 1000)>> }
    ELSE IF e.ev = "class" THEN
        { <<"no-exception", ~e.raised>>,
          <<"positive-finite", e.raised \/ e.positive>>,
          <<"proportional-to-B2-over-A2", e.raised \/ Small(e.shape_dev, Tol)>>,
          <<"constant-is-rho-over-sampling", e.raised \/ ~e.rho_exposed \/ Small(e.const_dev, Tol)>> }
    ELSE IF e.ev = "live" THEN
        \* the exposed model of a live object follows its current lag / orders (= the functional estimate)
        { <<"no-exception", ~e.raised>>,
          <<"exposed-model-is-the-estimate-for-current-attributes", e.raised \/ Small(e.dev, Tol)>> }
    ELSE IF e.ev = "coexist" THEN
        \* objects built first and evaluated afterwards expose their own model and their own PSD
        { <<"no-exception", ~e.raised>>,
          <<"exposed-model-is-the-objects-own", e.raised \/ (Small(e.par_dev, Tol) /\ Small(e.psd_dev, Tol))>> }
    ELSE { <<"unknown-event", FALSE>> }

VARIABLES l, fails
Init == l = 1 /\ fails = {}
Next == /\ l <= Len(Trace)
        /\ l' = l + 1
        /\ fails' = Failed(Clauses(Trace[l]))
Spec == Init /\ [][Next]_<<l, fails>>
=============================================================================
