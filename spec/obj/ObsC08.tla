------------------------------ MODULE ObsC08 ------------------------------
(***************************************************************************)
(* C08 on float data: per estimator class                                  *)
(*  - scale_by_freq=True is the unscaled estimate times 2*pi/df exactly    *)
(*    once (deviations are relative, in units of 1e-9)                     *)
(*  - a change of sampling frequency rescales the axis proportionally and  *)
(*    "divides": AR / MA / ARMA model spectra (Burg, Yule-Walker,          *)
(*               covariance, modified covariance, ARMA, MA)                *)
(*    "unchanged": periodogram, correlogram, multitaper, MUSIC, EV         *)
(*    "multiplies": minimum variance (C16: T / e^H R^-1 e) - not in the    *)
(*               "divides" list of C08, only required to be consistent     *)
(*               with C16                                                  *)
(***************************************************************************)
EXTENDS ObsPrelude

Tol == 1000   \* 1e-6 relative

Clauses(e) ==
    { <<"no-exception", ~e.raised>>,
      <<"scaled-exactly-once", e.raised \/ Small(e.scale_dev, Tol)>>,
      <<"axis-proportional-to-sampling", e.raised \/ Small(e.axis_dev, Tol)>>,
      <<"df-is-sampling-over-NFFT", e.raised \/ Small(e.df_dev, Tol)>>,
      <<"lengths", e.raised \/ e.len_ok>>,
      \* the sampling rate re-assigned on a live object (to a clearly different rate, and to one 3e-6 away: a nearby value
      \* is another value): the object then reports what a fresh object with the new rate reports (1e-7; the two
      \* rates differ by 3e-6)
      <<"live-sampling-change-equals-fresh", e.raised \/ ~Has(e, "live_dev") \/ Small(e.live_dev, 100)>>,
      <<"sampling-rule", e.raised \/
            IF e.family = "divides" THEN Small(e.samp_divides_dev, Tol)
            ELSE IF e.family = "unchanged" THEN Small(e.samp_unchanged_dev, Tol)
            ELSE Small(e.samp_multiplies_dev, Tol)>> }

VARIABLES l, fails
Init == l = 1 /\ fails = {}
Next == /\ l <= Len(Trace)
        /\ l' = l + 1
        /\ fails' = Failed(Clauses(Trace[l]))
Spec == Init /\ [][Next]_<<l, fails>>
=============================================================================
