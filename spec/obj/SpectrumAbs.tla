---------------------------- MODULE SpectrumAbs ----------------------------
(***************************************************************************)
(* The property envelope of the estimator-object protocol (C07, and the    *)
(* protocol parts of C02 and C08).  Only what a user can observe:          *)
(*                                                                         *)
(*   a    the public attribute values                                      *)
(*   ret  what the last operation returned when it was a read of `psd`:    *)
(*        is it the estimate of a fresh object with the current attribute  *)
(*        values (fresh), in which layout, how many times it was multiplied*)
(*        by 2*pi/df (scaled), how long it is; plus df and the length of   *)
(*        frequencies() as observed after every operation                  *)
(*                                                                         *)
(* Deterministic where C07/C08 pin the behaviour, nondeterministic where   *)
(* they are silent: an NFFT change, an explicit computation or a read may  *)
(* or may not reset `sides` to its default.                                *)
(*                                                                         *)
(* Succ(a, op, arg) is the set of attribute records allowed after applying *)
(* operation op with argument arg in a state with attributes a; it is used *)
(* both by the actions below (refinement target of SpectrumImpl) and by    *)
(* the trace specification SpectrumTrace (validation of recorded traces).  *)
(***************************************************************************)
EXTENDS Axis, TLC

\* NFFT argument encoding: 0 = None (data length), 1 = 'nextpow2', n >= 2 = that integer
RECURSIVE Pow2AtLeast(_, _)
Pow2AtLeast(p, n) == IF p >= n THEN p ELSE Pow2AtLeast(2 * p, n)
Resolve(arg, N) == IF arg = 0 THEN N ELSE IF arg = 1 THEN Pow2AtLeast(1, N) ELSE arg

SetterOps == {"SetData", "SetNFFT", "SetSampling", "SetSides", "SetWindow", "SetLag",
              "SetDetrend", "SetScale", "SetArOrder", "SetMaOrder"}
ComputeOps == {"Call", "ReadPsd", "GetConverted"}   \* GetConverted(s): get_converted_psd(s), a read in another layout

SidesMayReset(a) == {a, [a EXCEPT !.sides = DefaultSides(a.dt)]}

ResolveSides(a, s) == IF s = "default" THEN DefaultSides(a.dt) ELSE s

\* attribute records allowed after the operation (arg: value assigned; for SetData the
\* record [data |-> token, N |-> length, dt |-> datatype of the new samples])
Succ(a, op, arg) ==
    IF op = "SetData" THEN
        \* new samples; a datatype change (real <-> complex) may or may not reset sides at once
        LET na == [a EXCEPT !.data = arg.data, !.N = arg.N, !.dt = arg.dt]
        IN  IF arg.dt = a.dt THEN {na} ELSE SidesMayReset(na)
    ELSE IF op = "SetNFFT" THEN
        LET new == Resolve(arg, a.N)
        IN  IF new = a.nfft THEN {a} ELSE SidesMayReset([a EXCEPT !.nfft = new])
    ELSE IF op = "SetSampling" THEN {[a EXCEPT !.samp = arg]}
    ELSE IF op = "SetSides"    THEN {[a EXCEPT !.sides = ResolveSides(a, arg)]}
    ELSE IF op = "SetWindow"   THEN {[a EXCEPT !.window = arg]}
    ELSE IF op = "SetLag"      THEN {[a EXCEPT !.lag = arg]}
    ELSE IF op = "SetDetrend"  THEN {[a EXCEPT !.detrend = arg]}
    ELSE IF op = "SetScale"    THEN {[a EXCEPT !.scale = arg]}
    ELSE IF op = "SetArOrder"  THEN {[a EXCEPT !.ar = arg]}
    ELSE IF op = "SetMaOrder"  THEN {[a EXCEPT !.ma = arg]}
    ELSE IF op \in ComputeOps  THEN SidesMayReset(a)
    ELSE {a}

\* current value of the attribute an operation assigns (for the idempotence clause)
Current(a, op) ==
    IF op = "SetNFFT" THEN a.nfft
    ELSE IF op = "SetSampling" THEN a.samp
    ELSE IF op = "SetSides" THEN a.sides
    ELSE IF op = "SetWindow" THEN a.window
    ELSE IF op = "SetLag" THEN a.lag
    ELSE IF op = "SetDetrend" THEN a.detrend
    ELSE IF op = "SetScale" THEN a.scale
    ELSE IF op = "SetArOrder" THEN a.ar
    ELSE IF op = "SetMaOrder" THEN a.ma
    ELSE "n/a"

\* what a read of psd must return in a state with (post-read) attributes a
WantedScaled(a) == IF a.scale THEN 1 ELSE 0
ReadResult(a) == [valid |-> TRUE, fresh |-> TRUE, layout |-> a.sides,
                  scaled |-> WantedScaled(a), len |-> SLen(a.sides, a.nfft)]
NoRead == [valid |-> FALSE, fresh |-> FALSE, layout |-> "none", scaled |-> 0, len |-> 0]

\* axis observables in a state with attributes a: df = sampling/NFFT is represented by
\* the pair <<samp, nfft>>; frequencies() has SLen(sides, nfft) entries
AxisOf(a) == [samp |-> a.samp, nfft |-> a.nfft, lenf |-> SLen(a.sides, a.nfft)]

---------------------------------------------------------------------------
\* The envelope as a specification over (a, ret, axis); the operation alphabet is a
\* parameter so that SpectrumImpl can instantiate it with its own constants.
CONSTANT Ops      \* set of <<op, arg>> pairs that may be applied
VARIABLES a, ret, axis

absvars == <<a, ret, axis>>

Do(op, arg) ==
    /\ \E na \in Succ(a, op, arg) :
          /\ a' = na
          /\ ret' = IF op = "ReadPsd" THEN ReadResult(na) ELSE NoRead
          /\ axis' = AxisOf(na)

AbsNext == \E o \in Ops : Do(o[1], o[2])

\* TypeOK-style sanity: the axis always agrees with the attributes (C07: df = sampling/NFFT,
\* frequencies() as long as psd)
AxisConsistent == axis = AxisOf(a)
ReadConsistent == ret.valid => ret = ReadResult(a)
=============================================================================
