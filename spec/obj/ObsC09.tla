------------------------------ MODULE ObsC09 ------------------------------
(***************************************************************************)
(* C09 at realistic lengths (N up to 200, float data):                     *)
(*  "consistency": xcorr(x) against CORRELATION(x) - same values at        *)
(*      non-negative lags, conjugates at negative lags, lags -L..L         *)
(*  "cross": xcorr(x, y) at lag -k equals conj(r_yx[k])                    *)
(*  "toeplitz": r[0] = mean|x|^2 >= |r[k]|, Hermitian Toeplitz matrix      *)
(*      positive semi-definite, Gram(data matrix) = N * Toeplitz           *)
(* Deviations are relative, in units of 1e-9.                              *)
(***************************************************************************)
EXTENDS ObsPrelude

Tol == 1000

Clauses(e) ==
    IF e.ev = "consistency" THEN
        { <<"no-exception", ~e.raised>>,
          <<"lengths", e.raised \/ (e.len_c = e.L + 1 /\ e.len_x = 2 * e.L + 1)>>,
          <<"lags-symmetric-range", e.raised \/ (e.lag_first = -e.L /\ e.lag_last = e.L)>>,
          <<"same-at-nonnegative-lags", e.raised \/ Small(e.pos_dev, Tol)>>,
          <<"equals-the-lag-sum-definition", e.raised \/ ~Has(e, "def_dev") \/ Small(e.def_dev, Tol)>>,
          <<"conjugate-at-negative-lags", e.raised \/ Small(e.neg_dev, Tol)>>,
          <<"coeff-is-one-at-lag-zero", e.raised \/ e.zero_lag_unit>> }
    ELSE IF e.ev = "cross" THEN
        { <<"no-exception", ~e.raised>>,
          <<"same-at-nonnegative-lags", e.raised \/ Small(e.pos_dev, Tol)>>,
          <<"negative-lag-is-conj-ryx", e.raised \/ Small(e.neg_dev, Tol)>> }
    ELSE IF e.ev = "toeplitz" THEN
        { <<"no-exception", ~e.raised>>,
          <<"zero-lag-is-power", e.raised \/ Small(e.r0_dev, Tol)>>,
          <<"zero-lag-dominates", e.raised \/ e.dominant>>,
          <<"positive-semi-definite", e.raised \/ e.min_eig_q >= -Tol>>,
          <<"gram-is-N-times-toeplitz", e.raised \/ Small(e.gram_dev, Tol)>>,
          <<"data-matrix-shape", e.raised \/ e.shape_ok>> }
    ELSE { <<"unknown-event", FALSE>> }

VARIABLES l, fails
Init == l = 1 /\ fails = {}
Next == /\ l <= Len(Trace)
        /\ l' = l + 1
        /\ fails' = Failed(Clauses(Trace[l]))
Spec == Init /\ [][Next]_<<l, fails>>
=============================================================================
