---------------------------- MODULE SpectrumImpl ----------------------------
(***************************************************************************)
(* The mechanism of psd.py (Spectrum / FourierSpectrum / ParametricSpectrum *)
(* and the __call__ pipeline of the estimator classes), one action per     *)
(* public operation, shaped like the code:                                 *)
(*                                                                         *)
(*   modified      the dirty flag                                          *)
(*   cache         the stored PSD: is there one, in which layout it is     *)
(*                 stored, how many times it was multiplied by 2*pi/df,    *)
(*                 and (ghost) whether an attribute it depends on changed  *)
(*                 since it was computed                                   *)
(*   rN, rS        the Range object's own copies of NFFT and sampling      *)
(*                 (df and frequencies() are computed from these)          *)
(*                                                                         *)
(* Known defects of the implementation are *named switches* (constant      *)
(* Bugs): with a switch on, the action behaves like the defective code;    *)
(* with Bugs = {} this is the repaired mechanism and TLC proves that it    *)
(* refines the envelope SpectrumAbs for histories of every length.         *)
(*   "D1"  sampling setter does not update the Range copy                  *)
(*   "D2"  sides setter clears `modified` and converts a stale vector      *)
(*   "D14" order setters do not set `modified`                             *)
(*   "D15" ParametricSpectrum.lag is a plain attribute: no invalidation      *)
(*   (PreScale # 1 models a pipeline that applies the 2*pi/df scaling twice  *)
(*    or never: D4 Periodogram, D12 MultiTapering)                           *)
(***************************************************************************)
EXTENDS Axis, TLC

CONSTANTS Kind,       \* "fourier" | "parametric" | "base"
          DT,         \* "real" | "complex"
          DataN,      \* sequence: DataN[i] = length of data token i
          NfftArgs,   \* subset of Nat: 0 = None, 1 = 'nextpow2', n >= 2
          Samplings, Windows, Lags, Detrends, ArOrders, MaOrders,
          PreScale,   \* scalings applied by the pipeline when scale_by_freq is on (1 = correct)
          Bugs

VARIABLES data, N, nfft, samp, sides, scale, detrend, window, lag, ar, ma,
          modified, cache, rN, rS, ret

attrs == <<data, N, nfft, samp, sides, scale, detrend, window, lag, ar, ma>>
vars == <<data, N, nfft, samp, sides, scale, detrend, window, lag, ar, ma,
          modified, cache, rN, rS, ret>>

Abs == INSTANCE SpectrumAbs WITH
          Ops <- {},
          a <- [data |-> data, N |-> N, dt |-> DT, nfft |-> nfft, samp |-> samp, sides |-> sides,
                scale |-> scale, detrend |-> detrend, window |-> window, lag |-> lag,
                ar |-> ar, ma |-> ma],
          ret <- ret,
          axis <- [samp |-> rS, nfft |-> rN, lenf |-> SLen(sides, rN)]

NoCache == [valid |-> FALSE, stale |-> FALSE, layout |-> "none", scaled |-> 0, nfftc |-> 0]
NoRead == [valid |-> FALSE, fresh |-> FALSE, layout |-> "none", scaled |-> 0, len |-> 0]

Default == DefaultSides(DT)

HasWindow == Kind = "fourier"
HasOrders == Kind = "parametric"
\* FourierSpectrum has a lag attribute; among the parametric classes only the ARMA
\* estimator takes one (Lags = {0} means: no such attribute)
HasLag    == Kind = "fourier" \/ Lags # {0}

Init ==
    /\ data = 1 /\ N = DataN[1]
    /\ \E arg \in NfftArgs : nfft = Abs!Resolve(arg, N)
    /\ samp \in Samplings
    /\ scale \in BOOLEAN
    /\ sides = Default
    /\ detrend \in (IF HasWindow THEN Detrends ELSE {"na"})
    /\ window \in (IF HasWindow THEN Windows ELSE {"na"})
    /\ lag \in (IF HasLag THEN Lags ELSE {0})
    /\ ar \in (IF HasOrders THEN ArOrders ELSE {0})
    /\ ma \in (IF HasOrders THEN MaOrders ELSE {0})
    /\ modified = TRUE
    /\ cache = NoCache
    /\ rN = nfft /\ rS = samp
    /\ ret = NoRead

Touch == /\ modified' = TRUE
         /\ cache' = IF cache.valid THEN [cache EXCEPT !.stale = TRUE] ELSE cache

\* ---- setters -----------------------------------------------------------
SetData(d) ==
    /\ data' = d /\ N' = DataN[d]
    /\ modified' = TRUE
    /\ cache' = IF cache.valid /\ d # data THEN [cache EXCEPT !.stale = TRUE] ELSE cache
    /\ ret' = NoRead
    /\ UNCHANGED <<nfft, samp, sides, scale, detrend, window, lag, ar, ma, rN, rS>>

SetNFFT(arg) ==
    LET new == Abs!Resolve(arg, N) IN
    /\ ret' = NoRead
    /\ IF new = nfft
       THEN UNCHANGED <<data, N, nfft, samp, sides, scale, detrend, window, lag, ar, ma, modified, cache, rN, rS>>
       ELSE /\ nfft' = new /\ rN' = new
            /\ sides' = Default
            /\ Touch
            /\ UNCHANGED <<data, N, samp, scale, detrend, window, lag, ar, ma, rS>>

SetSampling(v) ==
    /\ ret' = NoRead
    /\ IF v = samp
       THEN UNCHANGED <<data, N, nfft, samp, sides, scale, detrend, window, lag, ar, ma, modified, cache, rN, rS>>
       ELSE /\ samp' = v
            /\ rS' = IF "D1" \in Bugs THEN rS ELSE v
            /\ Touch
            /\ UNCHANGED <<data, N, nfft, sides, scale, detrend, window, lag, ar, ma, rN>>

\* generic "compare, assign, set modified" setter of FourierSpectrum / Spectrum
Plain(cur, new, v) ==
    /\ ret' = NoRead
    /\ new = v
    /\ IF v = cur THEN UNCHANGED <<modified, cache>> ELSE Touch

SetWindow(w)  == Plain(window, window', w)  /\ UNCHANGED <<data, N, nfft, samp, sides, scale, detrend, lag, ar, ma, rN, rS>>
\* "D15": ParametricSpectrum.lag is a plain attribute (no comparison, no flag)
SetLag(l)     == (IF "D15" \in Bugs /\ Kind = "parametric"
                  THEN /\ ret' = NoRead /\ lag' = l /\ modified' = modified
                       /\ cache' = IF cache.valid /\ l # lag THEN [cache EXCEPT !.stale = TRUE] ELSE cache
                  ELSE Plain(lag, lag', l))  /\ UNCHANGED <<data, N, nfft, samp, sides, scale, detrend, window, ar, ma, rN, rS>>
SetDetrend(x) == Plain(detrend, detrend', x) /\ UNCHANGED <<data, N, nfft, samp, sides, scale, window, lag, ar, ma, rN, rS>>
SetScale(b)   == Plain(scale, scale', b)    /\ UNCHANGED <<data, N, nfft, samp, sides, detrend, window, lag, ar, ma, rN, rS>>

\* order setters of ParametricSpectrum
OrderSet(cur, new, v) ==
    /\ ret' = NoRead
    /\ new = v
    /\ IF v = cur \/ "D14" \in Bugs
       THEN /\ modified' = modified
            /\ cache' = IF cache.valid /\ v # cur THEN [cache EXCEPT !.stale = TRUE] ELSE cache
       ELSE Touch
SetArOrder(k) == OrderSet(ar, ar', k) /\ UNCHANGED <<data, N, nfft, samp, sides, scale, detrend, window, lag, ma, rN, rS>>
SetMaOrder(k) == OrderSet(ma, ma', k) /\ UNCHANGED <<data, N, nfft, samp, sides, scale, detrend, window, lag, ar, rN, rS>>

\* ---- the computation (__call__): estimate, store through the psd setter (which
\* resets sides to the default and clears `modified`), scale
Computed == [valid |-> TRUE, stale |-> FALSE, layout |-> Default,
             scaled |-> IF scale THEN PreScale ELSE 0, nfftc |-> nfft]

\* sides setter
SetSides(s0) ==
    LET s == IF s0 = "default" THEN Default ELSE s0 IN
    /\ ret' = NoRead
    /\ sides' = s
    /\ IF "D2" \in Bugs
       THEN \* defective: converts whatever is stored (recomputing first when the target
            \* differs and the vector is stale, then converting the fresh default-layout
            \* vector as if it were in the old layout) and clears the flag
            /\ modified' = FALSE
            /\ cache' = IF ~cache.valid THEN cache
                        ELSE IF s = sides THEN cache
                        ELSE IF modified
                             THEN [Computed EXCEPT !.layout = IF sides = Default THEN s ELSE "garbage"]
                             ELSE [cache EXCEPT !.layout = s]
       ELSE \* repaired: only an up-to-date vector is converted; the flag is left alone
            /\ modified' = modified
            /\ cache' = IF cache.valid /\ ~modified THEN [cache EXCEPT !.layout = s] ELSE cache
    /\ UNCHANGED <<data, N, nfft, samp, scale, detrend, window, lag, ar, ma, rN, rS>>

Call ==
    /\ cache' = Computed
    /\ sides' = Default
    /\ modified' = FALSE
    /\ ret' = NoRead
    /\ UNCHANGED <<data, N, nfft, samp, scale, detrend, window, lag, ar, ma, rN, rS>>

ReadPsd ==
    /\ IF ~cache.valid \/ modified
       THEN /\ cache' = Computed /\ sides' = Default
       ELSE /\ UNCHANGED <<cache, sides>>
    /\ modified' = FALSE
    /\ ret' = [valid |-> TRUE, fresh |-> ~cache'.stale, layout |-> cache'.layout,
               scaled |-> cache'.scaled, len |-> SLen(cache'.layout, cache'.nfftc)]
    /\ UNCHANGED <<data, N, nfft, samp, scale, detrend, window, lag, ar, ma, rN, rS>>

Next ==
    \/ \E d \in 1..Len(DataN) : SetData(d)
    \/ \E x \in NfftArgs : SetNFFT(x)
    \/ \E v \in Samplings : SetSampling(v)
    \/ \E s \in Allowed(DT) \cup {"default"} : SetSides(s)
    \/ \E b \in BOOLEAN : SetScale(b)
    \/ \E w \in (IF HasWindow THEN Windows ELSE {}) : SetWindow(w)
    \/ \E l \in (IF HasLag THEN Lags ELSE {}) : SetLag(l)
    \/ \E x \in (IF HasWindow THEN Detrends ELSE {}) : SetDetrend(x)
    \/ \E k \in (IF HasOrders THEN ArOrders ELSE {}) : SetArOrder(k)
    \/ \E k \in (IF HasOrders THEN MaOrders ELSE {}) : SetMaOrder(k)
    \/ Call
    \/ ReadPsd

Spec == Init /\ [][Next]_vars

---------------------------------------------------------------------------
\* C07 / C08 on the mechanism, as invariants (ret is reset by every non-read action)
Fresh      == ret.valid => ret.fresh
LayoutOK   == ret.valid => ret.layout = sides
ScaledOnce == ret.valid => ret.scaled = (IF scale THEN 1 ELSE 0)
LengthOK   == ret.valid => ret.len = SLen(sides, nfft)
DfOK       == rS = samp /\ rN = nfft
\* the flag never under-reports: a stale stored vector is always flagged
FlagSound  == (cache.valid /\ cache.stale) => modified

\* refinement: every step of the mechanism is a step (or a stutter) of the envelope
AbsOps == {<<"SetData", [data |-> d, N |-> DataN[d], dt |-> DT]>> : d \in 1..Len(DataN)}
          \cup {<<"SetNFFT", x>> : x \in NfftArgs}
          \cup {<<"SetSampling", v>> : v \in Samplings}
          \cup {<<"SetSides", s>> : s \in Allowed(DT) \cup {"default"}}
          \cup {<<"SetScale", b>> : b \in BOOLEAN}
          \cup {<<"SetWindow", w>> : w \in Windows} \cup {<<"SetLag", l>> : l \in Lags}
          \cup {<<"SetDetrend", x>> : x \in Detrends}
          \cup {<<"SetArOrder", k>> : k \in ArOrders} \cup {<<"SetMaOrder", k>> : k \in MaOrders}
          \cup {<<"Call", 0>>, <<"ReadPsd", 0>>}
AbsStep == \E o \in AbsOps : Abs!Do(o[1], o[2])
Refines == [][AbsStep]_<<attrs, ret, rN, rS>>
=============================================================================
