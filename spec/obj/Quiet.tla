-------------------------------- MODULE Quiet --------------------------------
(***************************************************************************)
(* Asking for diagnostics is not an argument.                              *)
(*                                                                         *)
(* Several entry points take a flag that only asks for diagnostics         *)
(* (verbose=True: print the singular values; show=True: draw a figure),    *)
(* and the library logs through the logging module, whose level is set by  *)
(* the application, not by the caller.  A property quantifies over data    *)
(* and parameters: none of these circumstances is one.  Code that          *)
(* normalises an array in place for the plot, that computes a needed value *)
(* only inside `if logger.isEnabledFor(DEBUG)`, or that rebinds a result   *)
(* in a verbose branch breaks every clause for the callers who asked, or   *)
(* did not ask, for diagnostics.                                           *)
(*                                                                         *)
(* The envelope: the state is a call token and a mode; the result is the   *)
(* result of the token.  TLC enumerates token x mode (a token without a    *)
(* diagnostics flag has no "flag" mode); every state is replayed and       *)
(* compared with the quiet result.                                         *)
(***************************************************************************)
EXTENDS Integers, FiniteSets, TLC

CONSTANTS NTokens,     \* call tokens 1..NTokens
          Flagged      \* the tokens that have a diagnostics flag

Modes == {"quiet", "flag", "debug-logging", "flag+debug-logging"}

Applicable(t, m) == m \in {"quiet", "debug-logging"} \/ t \in Flagged

VARIABLES phase, call, res
vars == <<phase, call, res>>
None == [none |-> TRUE]

Init == phase = "idle" /\ call = None /\ res = None

Call(t, m) == /\ phase = "idle"
              /\ Applicable(t, m)
              /\ phase' = "called"
              /\ call' = [token |-> t, mode |-> m]
              /\ res' = t                  \* the envelope: no dependence on m

Next == \E t \in 1..NTokens, m \in Modes : Call(t, m)
Spec == Init /\ [][Next]_vars

ModeFree == phase = "called" => res = call.token
=============================================================================
