------------------------------ MODULE ObsC05 ------------------------------
(***************************************************************************)
(* C05 on float data: with frequency scaling off the estimate at a given   *)
(* physical frequency does not depend on NFFT.  Per class and per pair     *)
(* (NFFT, c*NFFT), c >= 2, both admissible: relative deviation (1e-9       *)
(* units) between psd_NFFT[k] and psd_{c NFFT}[c k], and equality of the   *)
(* model parameters (AR, MA, variance, reflection coefficients, singular   *)
(* values, taper eigenvalues).  Admissibility is part of the table:        *)
(*   NFFT >= N periodogram, multitaper; >= 2 lag + 1 correlogram;          *)
(*   >= 2 order minimum variance; > order parametric classes.              *)
(***************************************************************************)
EXTENDS ObsPrelude

Tol == 100        \* 1e-7 relative (worst rounding error measured on the repaired tree: 1e-12)

Admissible(e) ==
    IF e.cls \in {"Periodogram", "MultiTapering", "MultiTapering:adapt", "MultiTapering:unity"} THEN e.nfft >= e.N
    ELSE IF e.cls = "pcorrelogram" THEN e.nfft >= 2 * e.lag + 1
    ELSE IF e.cls = "pminvar" THEN e.nfft >= 2 * e.order
    ELSE e.nfft > e.order     \* parametric classes; functional forms are called with admissible NFFT only

Clauses(e) ==
    IF e.ev = "grid" THEN
        { <<"no-exception", ~Admissible(e) \/ ~e.raised>>,
          \* the adaptive multitaper iteration stops on a mean absolute change scaled by 1/NFFT: two grids
          \* agree to the stopping tolerance only (measured 2e-3 on the unchanged tree; 5e-2 allowed)
          <<"same-value-at-common-frequencies", ~Admissible(e) \/ e.raised \/
                Small(e.dev, IF e.cls = "MultiTapering:adapt" THEN 50000000 ELSE Tol)>>,
          \* "frequencies common to both grids" are read off the axis each object reports: it must be the requested grid
          <<"object-reports-the-requested-grid", ~Admissible(e) \/ e.raised \/ ~Has(e, "grid_dev") \/ Small(e.grid_dev, 1000)>>,
          <<"length-of-finer-grid", ~Admissible(e) \/ e.raised \/ e.len_ok>>,
          <<"parameters-independent-of-NFFT", ~Admissible(e) \/ e.raised \/ Small(e.par_dev, 1000)>> }
    ELSE { <<"unknown-event", FALSE>> }

VARIABLES l, fails
Init == l = 1 /\ fails = {}
Next == /\ l <= Len(Trace)
        /\ l' = l + 1
        /\ fails' = Failed(Clauses(Trace[l]))
Spec == Init /\ [][Next]_<<l, fails>>
=============================================================================
