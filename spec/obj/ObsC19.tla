------------------------------ MODULE ObsC19 ------------------------------
(***************************************************************************)
(* C19 on float data with genuine Slepian tapers (N 16..1024):             *)
(*  "pmtm": eigenspectra = NFFT-point DFT of taper*data (deviation from    *)
(*      the DFT of the product computed from the returned tapers), taper   *)
(*      eigenvalues returned, weights: unity = 1, eigen = lambda/(i+1),    *)
(*      adapt = real, in [0, 1/lambda], equal to Thomson's formula         *)
(*      (S/(lambda S + sigma^2 (1-lambda)))^2 lambda at the spectrum the   *)
(*      iteration converged to (fixed-point residual; the iteration stops   *)
(*      on a mean absolute change, so only 0.25 of the largest weight is    *)
(*      required: measured worst case 0.05)                                 *)
(*  "class": psd = mean over tapers of weight*|eigenspectrum|^2 (doubled   *)
(*      and folded for real data), real and non-negative; precomputed      *)
(*      tapers give the same result as internally computed ones            *)
(* Deviations relative, 1e-9 units.                                        *)
(***************************************************************************)
EXTENDS ObsPrelude

Tol == 1000

Clauses(e) ==
    IF e.ev = "pmtm" THEN
        { <<"no-exception", ~e.raised>>,
          <<"eigenspectra-are-tapered-DFTs", e.raised \/ Small(e.dft_dev, Tol)>>,
          <<"eigenvalues-returned", e.raised \/ Small(e.eig_dev, Tol)>>,
          <<"shapes", e.raised \/ e.shapes_ok>>,
          <<"weights-unity-or-eigen", e.raised \/ e.method = "adapt" \/ Small(e.w_dev, Tol)>>,
          <<"adaptive-weights-real", e.raised \/ e.method # "adapt" \/ e.w_real>>,
          <<"adaptive-weights-in-range", e.raised \/ e.method # "adapt" \/ e.w_in_range>>,
          <<"adaptive-weights-thomson-formula", e.raised \/ e.method # "adapt" \/ Small(e.w_dev, 250000000)>> }
    ELSE IF e.ev = "class" THEN
        { <<"no-exception", ~e.raised>>,
          <<"real-non-negative", e.raised \/ e.real_nonneg>>,
          <<"weighted-mean-of-eigenspectra", e.raised \/ Small(e.mean_dev, Tol)>>,
          <<"precomputed-tapers-same-result", e.raised \/ Small(e.pre_dev, Tol)>>,
          <<"length", e.raised \/ e.len_ok>> }
    ELSE IF e.ev = "defaultk" THEN
        \* k left to its default: the tapers pmtm computes itself are those dpss(N, NW) hands to a caller who
        \* precomputes them with the same default (any NW, half-integer or not)
        { <<"no-exception", ~e.raised>>,
          <<"default-number-of-tapers-as-dpss", e.raised \/ e.same_k>>,
          <<"precomputed-tapers-same-result", e.raised \/ ~e.same_k \/ Small(e.pre_dev, Tol)>> }
    ELSE { <<"unknown-event", FALSE>> }

VARIABLES l, fails
Init == l = 1 /\ fails = {}
Next == /\ l <= Len(Trace)
        /\ l' = l + 1
        /\ fails' = Failed(Clauses(Trace[l]))
Spec == Init /\ [][Next]_<<l, fails>>
=============================================================================
