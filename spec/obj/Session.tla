------------------------------- MODULE Session -------------------------------
(***************************************************************************)
(* A library function is a function: what a call returns depends on its    *)
(* arguments only - not on the calls made before it in the same process.   *)
(* Every listed property is stated for "the" result of a call and thereby  *)
(* assumes this; module-level caches keyed too coarsely, work buffers that *)
(* are not cleared, results that alias internal storage and class-level    *)
(* attributes break it although each call, tried alone, is correct.        *)
(*                                                                         *)
(* The specification is the history-free envelope over an alphabet of call *)
(* tokens (function + arguments, chosen per property so that tokens share  *)
(* whatever a careless cache key might be made of: same length, same NFFT, *)
(* same integer part of a parameter, same coefficients with another zero   *)
(* lag ...).  TLC enumerates every call sequence up to MaxLen; each        *)
(* sequence is replayed in one process and every result is compared with   *)
(* the result of the same token computed alone in a fresh interpreter.     *)
(***************************************************************************)
EXTENDS Integers, Sequences, TLC

CONSTANTS NTokens, MaxLen

VARIABLES hist,      \* tokens called so far, in order
          res        \* what each call returned, abstractly: the token whose isolated result it equals

vars == <<hist, res>>

Init == hist = <<>> /\ res = <<>>

\* the envelope: the call returns the isolated result of its own token, whatever hist is
Call(t) == /\ Len(hist) < MaxLen
           /\ hist' = Append(hist, t)
           /\ res' = Append(res, t)

Next == \E t \in 1..NTokens : Call(t)
Spec == Init /\ [][Next]_vars

HistoryFree == \A i \in 1..Len(hist) : res[i] = hist[i]
\* earlier results are never revised by later calls
Stable == [][\A i \in 1..Len(res) : res'[i] = res[i]]_vars
=============================================================================
