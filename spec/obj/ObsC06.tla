------------------------------ MODULE ObsC06 ------------------------------
(***************************************************************************)
(* C06 / C07 / C08 axis clauses far outside the exhaustive universe: for   *)
(* NFFT up to 1024 and sampling rates from 1e-3 to 48000, frequencies(s)   *)
(* has exactly SLen(s, NFFT) entries, runs from bin Bin(s, NFFT, 1) to bin *)
(* Bin(s, NFFT, len) in steps of one bin, and every entry is its bin times *)
(* sampling/NFFT (quantised relative deviation, units of 1e-12).  The      *)
(* length and bin formulas are those of AxisIdx.tla, proved in             *)
(* AxisProofs.tla; here they judge what the real object reports.           *)
(***************************************************************************)
EXTENDS ObsPrelude, AxisIdx

Clauses(e) ==
    IF e.ev = "axis" THEN
        { <<"no-exception", ~e.raised>>,
          <<"axis-length", e.raised \/ e.len = SLen(e.sides, e.nfft)>>,
          <<"axis-first-bin", e.raised \/ e.len = 0 \/ e.first = Bin(e.sides, e.nfft, 1)>>,
          <<"axis-last-bin", e.raised \/ e.len # SLen(e.sides, e.nfft) \/ e.last = Bin(e.sides, e.nfft, e.len)>>,
          <<"axis-values", e.raised \/ e.len # SLen(e.sides, e.nfft) \/ Small(e.dev, 1000)>>,
          \* frequencies() without argument is the axis of the current layout
          <<"axis-default-argument", e.raised \/ e.noarg_same>>,
          \* a stored vector at this NFFT: every layout as long as its axis, total power kept, the way back exact
          <<"conversions-at-this-nfft", e.raised \/ e.conv_ok>> }
    ELSE { <<"unknown-event", FALSE>> }

VARIABLES l, fails
Init == l = 1 /\ fails = {}
Next == /\ l <= Len(Trace)
        /\ l' = l + 1
        /\ fails' = Failed(Clauses(Trace[l]))
Spec == Init /\ [][Next]_<<l, fails>>
=============================================================================
