---------------------------- MODULE HelpersConv ----------------------------
(***************************************************************************)
(* The tools.py conversion helpers as pure functions of ANY two-sided      *)
(* vector (C06: "and via the tools helpers").  SidesConv.tla reaches the   *)
(* helpers only with vectors that come from a real object's one-sided PSD, *)
(* which are symmetric by construction; a helper is a public function and  *)
(* must fold an asymmetric two-sided vector by the sign of the frequency   *)
(* as well.  One state per (n, pair of basis entries): the two-sided       *)
(* vector 2*e_b + 4*e_c, its fold and its centred image.                   *)
(***************************************************************************)
EXTENDS Axis, TLC

CONSTANT MaxN

VARIABLES n, b, c, two, one, cen

vars == <<n, b, c, two, one, cen>>

Vec(len, i, j) == [k \in 1..len |-> (IF k = i THEN 2 ELSE 0) + (IF k = j THEN 4 ELSE 0)]

Init == /\ n \in 2..MaxN
        /\ b \in 1..n
        /\ c \in 1..n
        /\ two = Vec(n, b, c)
        /\ one = T2O(n, two)
        /\ cen = T2C(n, two)

Next == UNCHANGED vars
Spec == Init /\ [][Next]_vars

FoldKeepsPower == SumSeq(one) = SumSeq(two)
FoldLength == Len(one) = OneLen(n)
\* each two-sided entry lands on the one-sided entry of its folded bin
FoldBySign == \A k \in 1..n : two[k] # 0 => one[FoldBin(n, k - 1) + 1] >= two[k]
CentreIsPermutation == SumSeq(cen) = SumSeq(two) /\ C2T(n, cen) = two
=============================================================================
