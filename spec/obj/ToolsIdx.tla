------------------------------- MODULE ToolsIdx -------------------------------
(***************************************************************************)
(* Pure index functions of tools.py as index maps (growth of the           *)
(* specification beyond the listed properties; cshift and nextpow2 are     *)
(* used by the conversions and by NFFT resolution):                        *)
(*   cshift(x, k)       circular shift to the right by k: out[i] = x[i-k]  *)
(*   twosided(x)        reversed x followed by x without its first element *)
(*   _swapsides(x)      x[N/2+1:] followed by x[:N/2]                      *)
(*   nextpow2(n)        smallest e with 2^e >= n                           *)
(* Each initial state is one (function, N, k) with the expected map: entry *)
(* i of the output holds input entry map[i] (1-based).                     *)
(***************************************************************************)
EXTENDS Integers, Sequences, TLC

CONSTANT MaxN

VARIABLES fn, N, k, map

vars == <<fn, N, k, map>>

RECURSIVE Log2Ceil(_, _, _)
Log2Ceil(n, p, e) == IF p >= n THEN e ELSE Log2Ceil(n, 2 * p, e + 1)

Init ==
    \/ /\ fn = "cshift" /\ N \in 1..MaxN /\ k \in (0 - MaxN)..MaxN
       /\ map = [i \in 1..N |-> (((i - 1) - k) % N) + 1]
    \/ /\ fn = "twosided" /\ N \in 1..MaxN /\ k = 0
       /\ map = [i \in 1..(2 * N - 1) |-> IF i <= N THEN (N + 1) - i ELSE i - N + 1]
    \/ /\ fn = "swapsides" /\ N \in 2..MaxN /\ k = 0
       /\ map = [i \in 1..((N - (N \div 2 + 1)) + N \div 2) |->
                    IF i <= N - (N \div 2 + 1) THEN (N \div 2 + 1) + i ELSE i - (N - (N \div 2 + 1))]
    \/ /\ fn = "nextpow2" /\ N \in 1..(8 * MaxN) /\ k = 0
       /\ map = <<Log2Ceil(N, 1, 0)>>

Next == UNCHANGED vars
Spec == Init /\ [][Next]_vars

\* cshift is a permutation, and shifting by N is the identity
CshiftPermutation == fn = "cshift" => \A a, b \in 1..N : (a # b) => map[a] # map[b]
CshiftPeriod == (fn = "cshift" /\ k % N = 0) => \A i \in 1..N : map[i] = i
\* twosided output is a palindrome around its centre (entry N holds x[1])
TwosidedSymmetric == fn = "twosided" => \A i \in 1..(2 * N - 1) : map[i] = map[(2 * N) - i]
=============================================================================
