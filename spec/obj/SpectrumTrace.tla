--------------------------- MODULE SpectrumTrace ---------------------------
(***************************************************************************)
(* Trace specification: recorded executions of the *real* estimator        *)
(* objects, validated against the envelope SpectrumAbs.                    *)
(*                                                                         *)
(* The driver records one event per public operation, after the call       *)
(* returned (sequential library: the linearisation point is the return):   *)
(*   tid, i      trace id and position                                     *)
(*   op, arg     operation and argument ("Snap": (re)start from the logged *)
(*               attributes - first event of a trace, or a state reached   *)
(*               along an already validated path of the state graph)       *)
(*   post        the public attribute values after the operation           *)
(*   axis        df and frequencies() as observed: <<samp, nfft>> such     *)
(*               that df = samp/nfft (nfft = length of the two-sided       *)
(*               axis), lenf = length of frequencies()                     *)
(*   ret         for ReadPsd: which estimate came back (fresh = equals the *)
(*               estimate of a freshly constructed object with the final   *)
(*               attribute values), its layout, how many times it was      *)
(*               scaled by 2*pi/df, its length                             *)
(*   err         the operation raised                                      *)
(*                                                                         *)
(* Every event is explained by the envelope action of the same name: the   *)
(* logged attributes must be one of Succ(a, op, arg), the axis must be     *)
(* AxisOf(post), a read must return ReadResult(post).  A failed event is   *)
(* recorded with the names of the failed clauses and validation continues  *)
(* from the logged attributes (verdicts are total).                        *)
(***************************************************************************)
EXTENDS Integers, Sequences, FiniteSets, TLC, Json, IOUtils

Trace == ndJsonDeserialize(IOEnv.TRACE_FILE)

VARIABLES l, a, ret, axis, fails   \* fails: clauses failed by the event just consumed

Abs == INSTANCE SpectrumAbs WITH Ops <- {}

Failed(cl) == {c[1] : c \in {c \in cl : ~c[2]}}

IsSetter(op) == op \in Abs!SetterOps

Clauses(e) ==
    IF e.op = "Snap" THEN
        { <<"axis", e.axis = Abs!AxisOf(e.post)>> }
    ELSE
        { <<"no-exception", ~e.err>>,
          <<"attributes", e.err \/ e.post \in Abs!Succ(a, e.op, e.arg)>>,
          <<"axis", e.err \/ e.axis = Abs!AxisOf(e.post)>>,
          <<"read-fresh", (e.op = "ReadPsd" /\ ~e.err) => e.ret.fresh>>,
          <<"read-layout", (e.op = "ReadPsd" /\ ~e.err) => e.ret.layout = e.post.sides>>,
          <<"read-scaled-once", (e.op = "ReadPsd" /\ ~e.err) => e.ret.scaled = Abs!WantedScaled(e.post)>>,
          <<"read-length", (e.op = "ReadPsd" /\ ~e.err) => e.ret.len = e.axis.lenf>>,
          \* get_converted_psd(s): the current estimate in layout s, whatever was stored before
          <<"converted-fresh", (e.op = "GetConverted" /\ ~e.err) => e.ret.fresh>>,
          <<"converted-layout", (e.op = "GetConverted" /\ ~e.err) => e.ret.layout = e.arg>>,
          <<"converted-length", (e.op = "GetConverted" /\ ~e.err) => e.ret.len = Abs!SLen(e.arg, e.post.nfft)>>,
          \* frame condition (SpectrumPair.tla): the other live objects report after the operation what they reported before
          <<"other-live-objects-unaffected",
               ("others" \in DOMAIN e) => \A k \in 1..Len(e.others) : e.others[k].pre = e.others[k].post>>,
          <<"unchanged-value-changes-nothing",
               (IsSetter(e.op) /\ ~e.err /\ Abs!Succ(a, e.op, e.arg) = {a}) => e.post = a>> }

Init == l = 1 /\ a = [none |-> TRUE] /\ ret = Abs!NoRead /\ axis = [none |-> TRUE] /\ fails = {}

Next == /\ l <= Len(Trace)
        /\ l' = l + 1
        /\ LET e == Trace[l]
           IN  /\ fails' = Failed(Clauses(e))
               /\ a' = e.post
               /\ axis' = e.axis
               /\ ret' = IF e.op \in {"ReadPsd", "GetConverted"} /\ ~e.err THEN e.ret ELSE Abs!NoRead

Spec == Init /\ [][Next]_<<l, a, ret, axis, fails>>
=============================================================================
