------------------------------ MODULE ObsC11 ------------------------------
(***************************************************************************)
(* C11, transcendental representations.  Exact special points (the table)  *)
(* and quantised round trips for orders 1..16 (units of 1e-9):             *)
(*   inverse sine:  is = (2/pi) asin(k):  k = 0 -> 0, k = 1/2 -> 1/3,      *)
(*                  k = -1/2 -> -1/3 (and back)                            *)
(*   log area ratio: lar(0) = 0; rc -> lar -> rc and lar -> rc -> lar are  *)
(*                  identities, both maps increasing                       *)
(*   line spectral frequencies of the polynomial [1, 0, .., 0] of order p  *)
(*                  are i*pi/(p+1), i = 1..p (logged in units of 1e-6 pi); poly -> lsf -> poly is the   *)
(*                  identity, p frequencies strictly increasing in (0, pi) *)
(***************************************************************************)
EXTENDS ObsPrelude

Tol == 1000                 \* 1e-6
Giga == 1000000000

\* expected inverse-sine value (units of 1e-9) for the tabulated k = num/den
IsTable(num, den) ==
    IF num = 0 THEN 0
    ELSE IF num = 1 /\ den = 2 THEN 333333333
    ELSE IF num = -1 /\ den = 2 THEN -333333333
    ELSE -1

Clauses(e) ==
    IF e.ev = "is-special" THEN
        { <<"no-exception", ~e.raised>>,
          <<"tabulated-value", e.raised \/ IsTable(e.k_num, e.k_den) = -1 \/ Small(e.is_q - IsTable(e.k_num, e.k_den), 2)>>,
          <<"inverse-of-tabulated-value", e.raised \/ IsTable(e.k_num, e.k_den) = -1
                 \/ Small(e.back_q * e.k_den - e.k_num * Giga, 4)>> }
    ELSE IF e.ev = "lar-special" THEN
        { <<"no-exception", ~e.raised>>, <<"lar-of-zero", e.raised \/ e.lar_q = 0>> }
    ELSE IF e.ev = "lsf-special" THEN
        { <<"no-exception", ~e.raised>>,
          <<"count", e.raised \/ e.n = e.p>>,
          <<"equally-spaced", e.raised \/ e.n # e.p \/
                \A i \in 1..e.p : Small(e.lsf_over_pi_q[i] * (e.p + 1) - i * 1000000, 2 * (e.p + 1))>> }
    ELSE IF e.ev = "lar-is" THEN
        { <<"no-exception", ~e.raised>>,
          <<"rc-lar-rc", e.raised \/ Small(e.lar_rt, Tol)>>,
          <<"rc-is-rc", e.raised \/ Small(e.is_rt, Tol)>>,
          <<"lar-rc-lar", e.raised \/ Small(e.lar_rt2, Tol)>>,
          <<"is-rc-is", e.raised \/ Small(e.is_rt2, Tol)>>,
          <<"lar-increasing", e.raised \/ e.lar_monotone>>,
          <<"is-increasing", e.raised \/ e.is_monotone>>,
          <<"is-in-open-interval", e.raised \/ e.is_in_range>>,
          <<"lengths", e.raised \/ e.lens_ok>> }
    ELSE IF e.ev = "lsf" THEN
        { <<"no-exception", ~e.raised>>,
          <<"count", e.raised \/ e.n = e.order>>,
          <<"strictly-increasing", e.raised \/ e.increasing>>,
          <<"inside-zero-pi", e.raised \/ e.inside>>,
          <<"poly-lsf-poly", e.raised \/ Small(e.rt, Tol)>>,
          <<"real-polynomial", e.raised \/ Small(e.imag, Tol)>> }
    ELSE { <<"unknown-event", FALSE>> }

VARIABLES l, fails
Init == l = 1 /\ fails = {}
Next == /\ l <= Len(Trace)
        /\ l' = l + 1
        /\ fails' = Failed(Clauses(Trace[l]))
Spec == Init /\ [][Next]_<<l, fails>>
=============================================================================
