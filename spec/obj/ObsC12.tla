------------------------------ MODULE ObsC12 ------------------------------
(***************************************************************************)
(* C12 at realistic sizes (N up to 200, orders up to 30).  Per call of the *)
(* Yule-Walker estimator: residual of the Yule-Walker equations            *)
(* T [1,a] = [P,0..] against the biased sample autocorrelation (relative,  *)
(* 1e-9 units), largest root / reflection modulus (1e-6 units), sign of P, *)
(* agreement of lpc on real data.                                          *)
(***************************************************************************)
EXTENDS ObsPrelude

Tol == 1000
Clauses(e) ==
    { <<"no-exception", ~e.raised>>,
      <<"matches-biased-autocorrelation", e.raised \/ Small(e.yw_dev, Tol)>>,
      <<"roots-inside-unit-circle", e.raised \/ e.maxroot_ppm < 1000000>>,
      <<"reflection-below-one", e.raised \/ e.maxk_ppm < 1000000>>,
      <<"variance-positive", e.raised \/ e.ppos>>,
      <<"lengths", e.raised \/ e.lens>>,
      \* the reflection coefficients and the variance are those of the Levinson recursion on the biased autocorrelation
      \* (reference: the recursion in extended precision); ratio of the deviation to what the conditioning of the
      \* record allows (1e-12 * r0 / min P), in 1e-3 units
      <<"reflection-coefficients-of-the-recursion", e.raised \/ ~Has(e, "k_ratio") \/ e.k_ratio <= 1000>>,
      <<"lpc-same-coefficients", e.raised \/ Small(e.lpc_dev, 10 * Tol)>> }

VARIABLES l, fails
Init == l = 1 /\ fails = {}
Next == /\ l <= Len(Trace)
        /\ l' = l + 1
        /\ fails' = Failed(Clauses(Trace[l]))
Spec == Init /\ [][Next]_<<l, fails>>
=============================================================================
