------------------------------ MODULE ObsC17 ------------------------------
(***************************************************************************)
(* C17 on noiseless sums of K on-grid complex exponentials (or K/2 real    *)
(* sinusoids), signal-subspace dimension K, K < P, N in 2P..128:           *)
(*  - the K largest local maxima of the pseudo-spectrum sit within one bin *)
(*    of the true frequencies (peakbins vs truebins, circular distance on  *)
(*    the NFFT grid; the layout of the reported axis is C02's business)    *)
(*  - the pseudo-spectrum is positive at every frequency (never nan, never *)
(*    negative; +inf only allowed exactly on a peak)                       *)
(*  - singular values: those of the forward-backward data matrix           *)
(*    (deviation from the SVD of the matrix built with the index map of    *)
(*    EigenArgs.tla), non-increasing, exactly K above 1e-8 x the largest   *)
(***************************************************************************)
EXTENDS ObsPrelude

CircDist(a, b, n) == LET d == (a - b) % n IN Min(d, n - d)

Clauses(e) ==
    IF e.ev = "peaks" THEN
        { <<"no-exception", ~e.raised>>,
          <<"K-peaks-found", e.raised \/ Len(e.peakbins) = e.K>>,
          <<"peaks-within-one-bin-of-truth", e.raised \/ Len(e.peakbins) # e.K \/
               \A i \in 1..e.K : \E j \in 1..e.K : CircDist(e.peakbins[j], e.truebins[i], e.nfft) <= 1>>,
          <<"positive-everywhere", e.raised \/ e.positive>>,
          <<"singular-values-of-FB-matrix", e.raised \/ Small(e.sv_dev, 1000)>>,
          <<"singular-values-non-increasing", e.raised \/ e.sv_sorted>>,
          <<"exactly-K-non-negligible", e.raised \/ e.rank = e.K>> }
    ELSE { <<"unknown-event", FALSE>> }

VARIABLES l, fails
Init == l = 1 /\ fails = {}
Next == /\ l <= Len(Trace)
        /\ l' = l + 1
        /\ fails' = Failed(Clauses(Trace[l]))
Spec == Init /\ [][Next]_<<l, fails>>
=============================================================================
