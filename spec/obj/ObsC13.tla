------------------------------ MODULE ObsC13 ------------------------------
(***************************************************************************)
(* C13 at realistic sizes (N up to 200, orders up to 30): per call of the  *)
(* Burg estimator, reflection coefficients of modulus <= 1, stable         *)
(* polynomial, variance = mean|x|^2 prod(1-|k_i|^2), variance              *)
(* non-increasing with the order, nested reflection coefficients, and with *)
(* a criterion: exactly the Burg model of the selected order q <= p.       *)
(***************************************************************************)
EXTENDS ObsPrelude

Tol == 1000
Clauses(e) ==
    { <<"no-exception", ~e.raised>>,
      <<"reflection-at-most-one", e.raised \/ e.maxk_ppm <= 1000000>>,
      <<"stable", e.raised \/ e.maxroot_ppm <= 1000001>>,
      <<"variance-formula", e.raised \/ Small(e.rho_dev, Tol)>>,
      \* each k_i minimises the forward+backward error energy of its stage (errors rebuilt from k_1..k_{i-1})
      <<"each-stage-minimises-fb-error", e.raised \/ Small(e.min_dev, Tol)>>,
      \* ... relative to the variance itself (strongly predictable records: the variance is 1e-10 of the power and less):
      \* ratio of the relative deviation to what the cancellation in 1-|k_i|^2 allows (1e-14 * sum 1/(1-|k_i|^2)), 1e-3 units
      <<"variance-formula-relative", e.raised \/ ~Has(e, "rho_rel_ratio") \/ e.rho_rel_ratio <= 1000>>,
      <<"variance-non-increasing", e.raised \/ e.nonincreasing>>,
      <<"nested", e.raised \/ Small(e.nest_dev, Tol)>>,
      <<"lengths", e.raised \/ e.lens>>,
      <<"same-model-for-integer-dtype-input", Small(e.int_dev, Tol)>>,
      <<"criterion-gives-a-burg-model", e.raised \/ (e.crit_order_ok /\ Small(e.crit_dev, Tol))>> }

VARIABLES l, fails
Init == l = 1 /\ fails = {}
Next == /\ l <= Len(Trace)
        /\ l' = l + 1
        /\ fails' = Failed(Clauses(Trace[l]))
Spec == Init /\ [][Next]_<<l, fails>>
=============================================================================
