-------------------------------- MODULE Units --------------------------------
(***************************************************************************)
(* The unit the data are expressed in is not part of the data.             *)
(*                                                                         *)
(* Every kernel specification is homogeneous: multiplying the record by c  *)
(* multiplies each output by c^d for a fixed degree d of that output       *)
(* (coefficients: 0, data matrices and eigenspectra: 1, correlations,      *)
(* variances and spectra: 2, the solution of T x = z in the entries of T:  *)
(* -1).  The properties quantify over "all data" - volts or attovolts -    *)
(* so a result must not depend on the unit except through c^d.  Absolute   *)
(* thresholds and additive guards (1e-40, float32 tiny, "sig2 < 1e-30"),   *)
(* and intermediate quantities of a higher degree than the algorithm needs *)
(* (a product of two energies before a square root) break this for data in *)
(* small or large units although each clause holds for data of order 1.    *)
(*                                                                         *)
(* The specification is the unit-free envelope.  The state is a call token *)
(* and a binary exponent e (the record is multiplied by 2^e, which is      *)
(* exact in binary floating point); a token declares the degree of each    *)
(* output and MaxDeg, the largest degree of any quantity the algorithm     *)
(* has to form.  TLC decides which (token, e, precision) are admissible -   *)
(* every quantity up to MaxDeg stays inside the normal range of the        *)
(* precision the samples are stored in (double: 2^-1022 .. 2^1023, single: *)
(* 2^-126 .. 2^127), with Margin bits to spare for the magnitude of the    *)
(* unscaled record and its sums - and enumerates them; each state is       *)
(* replayed and the result, divided by 2^(d e), compared with the result   *)
(* for e = 0.                                                              *)
(***************************************************************************)
EXTENDS Integers, Sequences, TLC

CONSTANTS NTokens,      \* call tokens 1..NTokens
          Deg1, Deg4, Deg8,   \* the tokens whose MaxDeg is 1 / 4 / 8 (all others: 2)
          Magnitudes,   \* set of positive integers: the binary exponents are +m and -m
          Margin        \* bits kept in reserve

Abs(i) == IF i < 0 THEN -i ELSE i
Exponents == Magnitudes \cup {-m : m \in Magnitudes}

MaxDeg(t) == IF t \in Deg1 THEN 1 ELSE IF t \in Deg4 THEN 4 ELSE IF t \in Deg8 THEN 8 ELSE 2

\* the precision the samples are stored in: binary exponent range of its normal numbers
Precisions == {"double", "single"}
Range(p) == IF p = "double" THEN 1022 ELSE 126

\* Slack: an implementation may form quantities of up to Slack times the degree the algorithm needs (the square root of
\* a product of two energies instead of a product of two roots, a squared pivot) without breaking any property: that
\* halves the range of units it supports, it does not make a result depend on the unit inside that range
Slack == 2

Admissible(t, e, p) == Abs(e) * Slack * MaxDeg(t) + Margin <= Range(p)

\* the most extreme admissible exponents of a token: where a quantity of too high a degree leaves the range first
Extreme(t, e, p) == /\ Admissible(t, e, p)
                    /\ \A f \in Exponents : (Admissible(t, f, p) /\ (f < 0) = (e < 0)) => Abs(f) <= Abs(e)

VARIABLES phase, call, res
vars == <<phase, call, res>>
None == [none |-> TRUE]

Init == phase = "idle" /\ call = None /\ res = None

Call(t, e, p) == /\ phase = "idle"
                 /\ Admissible(t, e, p)
                 /\ phase' = "called"
                 /\ call' = [token |-> t, exp |-> e, prec |-> p, extreme |-> Extreme(t, e, p)]
                 /\ res' = [token |-> t, shift |-> e]    \* the envelope: the e = 0 result (same precision), each output shifted by degree * e bits

Next == \E t \in 1..NTokens, e \in Exponents, p \in Precisions : Call(t, e, p)
Spec == Init /\ [][Next]_vars

UnitFree == phase = "called" => res = [token |-> call.token, shift |-> call.exp]
\* vacuity guard: every token has an admissible exponent on either side of 0
ASSUME \A t \in 1..NTokens : (\E e \in Exponents : e < 0 /\ Admissible(t, e, "double")) /\ (\E e \in Exponents : e > 0 /\ Admissible(t, e, "double"))
=============================================================================
