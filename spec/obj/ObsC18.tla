------------------------------ MODULE ObsC18 ------------------------------
(***************************************************************************)
(* C18: Slepian tapers.  There is no exact finite model of this kernel     *)
(* (an irrational eigenproblem solved by inverse iteration in C), so the   *)
(* specification is the domain and the clause table, and every clause is   *)
(* judged on observation events of the real dpss():                        *)
(*   domain    N >= 8, 1 <= NW < N/2, k <= 2 NW (or the default k); NW is  *)
(*             logged in hundredths (nw100)                                *)
(*   shape     N rows, k columns (k requested), as many concentration      *)
(*             ratios as columns                                           *)
(*   facts     quantised residuals (1e-9 units) of                         *)
(*             - orthonormality  V^T V = I                                 *)
(*             - the DEFINING equation  A v_j = lambda_j v_j  with the     *)
(*               sinc concentration kernel A[n,m] = sin(2 pi W (n-m)) /    *)
(*               (pi (n-m)), W = NW/N, built by the driver from the        *)
(*               formula (the definition is the oracle, not another        *)
(*               solver), and lambda_j = v_j^T A v_j / v_j^T v_j: the      *)
(*               fraction of the energy inside |f| <= W                    *)
(*             - the leading eigenvalues of A from an independent          *)
(*               eigen-solver (the statement itself names this oracle),    *)
(*               N <= 256                                                  *)
(*             - symmetry v_j[n] = (-1)^j v_j[N-1-n]                       *)
(*             and booleans: ratios in (0, 1], non-increasing, even tapers *)
(*             with positive sum, odd tapers starting with a positive lobe *)
(* The C routine receives NW as a single-precision number: the measured    *)
(* residual of the defining equation on the unchanged tree is 2e-8 (1e-5   *)
(* allowed), of the symmetry 2e-7 (1e-5 allowed); everything else is at    *)
(* 1e-12 and is allowed 1e-8.                                              *)
(***************************************************************************)
EXTENDS ObsPrelude

InDomain(e) == /\ e.N >= 8
               /\ e.nw100 >= 100
               /\ 2 * e.nw100 < 100 * e.N
               /\ (e.k = 0 \/ (e.k >= 1 /\ 100 * e.k <= 2 * e.nw100))      \* k = 0: the default number of tapers

Clauses(e) ==
    { <<"no-exception", ~InDomain(e) \/ ~e.raised>>,
      <<"shape", ~InDomain(e) \/ e.raised \/ (e.rows = e.N /\ e.nlam = e.cols /\ (e.k = 0 \/ e.cols = e.k) /\ e.cols >= 1)>>,
      <<"orthonormal", ~InDomain(e) \/ e.raised \/ Small(e.orth_q, 10)>>,
      <<"ratios-in-unit-interval", ~InDomain(e) \/ e.raised \/ e.in_range>>,
      <<"ratios-non-increasing", ~InDomain(e) \/ e.raised \/ e.noninc>>,
      <<"ratio-is-energy-fraction-in-band", ~InDomain(e) \/ e.raised \/ ~e.has_kernel \/ Small(e.conc_q, 10)>>,
      <<"eigenvectors-of-the-sinc-kernel", ~InDomain(e) \/ e.raised \/ ~e.has_kernel \/ Small(e.resid_q, 10000)>>,
      <<"leading-eigenvalues", ~InDomain(e) \/ e.raised \/ ~e.has_solver \/ Small(e.lead_q, 10)>>,
      <<"even-symmetric-odd-antisymmetric", ~InDomain(e) \/ e.raised \/ Small(e.parity_q, 10000)>>,
      <<"sign-convention", ~InDomain(e) \/ e.raised \/ e.signs_ok>> }

VARIABLES l, fails
Init == l = 1 /\ fails = {}
Next == /\ l <= Len(Trace)
        /\ l' = l + 1
        /\ fails' = Failed(Clauses(Trace[l]))
Spec == Init /\ [][Next]_<<l, fails>>
=============================================================================
