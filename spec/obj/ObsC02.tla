------------------------------ MODULE ObsC02 ------------------------------
(***************************************************************************)
(* C02 (tone half): a dominant on-grid tone must peak at the entry whose   *)
(* reported frequency is the tone's.  The driver logs, per class, the bin  *)
(* number read off frequencies() at the arg-max of psd (fbin), the true    *)
(* bin k (signed, complex exponentials; positive, real sinusoids), NFFT,   *)
(* N and the multitaper NW.  The tolerance table lives here:               *)
(*   exact      periodogram, correlogram, covariance, modified covariance, *)
(*              MUSIC, EV                                                  *)
(*   one bin    Burg, Yule-Walker, ARMA, minimum variance                  *)
(*   taper bandwidth ceil(NW*NFFT/N) bins   multitaper                     *)
(*   MA         exempt                                                     *)
(*   real sinusoids: within ceil(NFFT/N)+1 bins of |k| for every class     *)
(***************************************************************************)
EXTENDS ObsPrelude

Exact == {"Periodogram", "pcorrelogram", "pcovar", "pmodcovar", "pmusic", "pev"}
OneBin == {"pburg", "pyule", "parma", "pminvar", "pburg:AIC", "pburg:MDL"}

\* circular distance between bins a and b on an n-point grid
CircDist(a, b, n) == LET d == (a - b) % n IN Min(d, n - d)

ComplexTol(e) == IF e.cls \in Exact THEN 0
                 ELSE IF e.cls \in OneBin THEN 1
                 ELSE IF e.cls = "MultiTapering" THEN CeilDiv(e.nw10 * e.nfft, 10 * e.N)
                 ELSE -1      \* exempt

Clauses(e) ==
    IF e.ev = "tone" THEN
        { <<"no-exception", ~e.raised>>,
          <<"real-finite", e.raised \/ e.realfinite>>,
          <<"lengths-agree", e.raised \/ e.lenpsd = e.lenfreq>>,
          <<"peak-at-reported-frequency", e.raised \/ e.cls = "pma" \/
               IF e.dt = "complex"
               THEN CircDist(e.fbin, e.k, e.nfft) <= ComplexTol(e)
               ELSE AbsI(AbsI(e.fbin) - e.k) <= CeilDiv(e.nfft, e.N) + 1>> }
    ELSE IF e.ev = "fold" THEN
        \* where the one-sided values of real data come from, relative to the two-sided estimate of the same
        \* samples declared complex: the periodogram keeps the first bins as they are, the correlogram folds
        \* +f and -f together, every other class doubles the first bins (C04)
        { <<"no-exception", ~e.raised>>,
          <<"one-sided-length", e.raised \/ e.len_ok>>,
          <<"one-sided-values-sit-on-the-positive-axis", e.raised \/ ~e.len_ok \/
               IF e.cls = "Periodogram" THEN Small(e.same_dev, 100)
               ELSE IF e.cls = "pcorrelogram" THEN Small(e.fold_dev, 100)
               ELSE Small(e.double_dev, 100)>> }
    ELSE IF e.ev = "classfn" THEN
        \* complex data: the class holds exactly the functional estimate, bin k at entry k
        { <<"no-exception", ~e.raised>>,
          <<"class-stores-the-functional-estimate-on-its-axis", e.raised \/ Small(e.dev, 100)>> }
    ELSE IF e.ev = "coexist" THEN
        \* several estimator objects built first and evaluated afterwards: each one reports its own values on its own axis
        { <<"no-exception", ~e.raised>>,
          <<"own-axis-while-other-objects-are-alive", e.raised \/ Small(e.axis_dev, 100)>>,
          <<"own-values-while-other-objects-are-alive", e.raised \/ Small(e.psd_dev, 100)>> }
    ELSE { <<"unknown-event", FALSE>> }

VARIABLES l, fails
Init == l = 1 /\ fails = {}
Next == /\ l <= Len(Trace)
        /\ l' = l + 1
        /\ fails' = Failed(Clauses(Trace[l]))
Spec == Init /\ [][Next]_<<l, fails>>
=============================================================================
