------------------------------ MODULE PolyRoots ------------------------------
(***************************************************************************)
(* Growth of the specification beyond the listed properties: the           *)
(* polynomial side of transfer.py (zpk2tf, tf2zpk, tf2zp, eqtflength) and  *)
(* linalg.pascal.                                                          *)
(*                                                                         *)
(* A monic polynomial is built one root at a time (action AddRoot): the    *)
(* coefficients of prod (s - r_i) in exact complex-rational arithmetic.    *)
(* Envelope: every root is a zero (Horner), Vieta's first and last         *)
(* relations.  zpk2tf(z, p, k) must return k * Poly(z) and Poly(p);        *)
(* tf2zpk / tf2zp applied to those must return the roots (as a multiset)   *)
(* and the gain.                                                           *)
(***************************************************************************)
EXTENDS CQ, TLC

CONSTANTS MaxDeg, Parts, Complex

VARIABLES roots, coef      \* coef[1] = 1 (leading), coef[j+1] = coefficient of s^(n-j)

vars == <<roots, coef>>

RootSet == IF Complex THEN {CGauss(a, b) : a \in Parts, b \in Parts} ELSE {CInt(a) : a \in Parts}

Init == roots = <<>> /\ coef = <<COne>>

\* (s - r) * c(s):  new[j] = c[j] - r * c[j-1]
MulRoot(c, r) == [j \in 1..(Len(c) + 1) |->
                    CSub(IF j <= Len(c) THEN c[j] ELSE CZero,
                         IF j >= 2 THEN CMul(r, c[j - 1]) ELSE CZero)]

AddRoot(r) == /\ Len(roots) < MaxDeg
              /\ roots' = Append(roots, r)
              /\ coef' = MulRoot(coef, r)

Next == \E r \in RootSet : AddRoot(r)
Spec == Init /\ [][Next]_vars

---------------------------------------------------------------------------
RECURSIVE Horner(_, _, _)
Horner(c, z, acc) == IF c = <<>> THEN acc ELSE Horner(Tail(c), z, CAdd(CMul(acc, z), Head(c)))
Eval(c, z) == Horner(c, z, CZero)

Deg == Len(roots)
RootsAreZeros == \A k \in 1..Deg : CIsZero(Eval(coef, roots[k]))
Monic == coef[1] = COne /\ Len(coef) = Deg + 1
VietaSum == Deg >= 1 => coef[2] = CNeg(CSumSeq(roots))
RECURSIVE CProdSeq(_)
CProdSeq(s) == IF s = <<>> THEN COne ELSE CMul(Head(s), CProdSeq(Tail(s)))
VietaProduct == Deg >= 1 => coef[Deg + 1] = (IF Deg % 2 = 0 THEN CProdSeq(roots) ELSE CNeg(CProdSeq(roots)))

---------------------------------------------------------------------------
\* eqtflength: the shorter of two coefficient lists is padded with zeros on the right
PadRight(s, len) == [j \in 1..len |-> IF j <= Len(s) THEN s[j] ELSE 0]
EqLen(b, a) == LET m == IF Len(a) > Len(b) THEN Len(a) ELSE Len(b) IN <<PadRight(b, m), PadRight(a, m)>>

\* pascal(n): first row and column 1, every other entry the sum of its upper and left neighbours
RECURSIVE PascalEntry(_, _)
PascalEntry(i, j) == IF i = 0 \/ j = 0 THEN 1 ELSE PascalEntry(i - 1, j) + PascalEntry(i, j - 1)
RECURSIVE Fact(_)
Fact(m) == IF m = 0 THEN 1 ELSE m * Fact(m - 1)
Binomial(m, k) == Fact(m) \div (Fact(k) * Fact(m - k))
PascalIsBinomial == \A i \in 0..5, j \in 0..5 : PascalEntry(i, j) = Binomial(i + j, i)
PascalSymmetric == \A i \in 0..6, j \in 0..6 : PascalEntry(i, j) = PascalEntry(j, i)
ASSUME PascalIsBinomial /\ PascalSymmetric
ASSUME EqLen(<<1, 2>>, <<1, 2, 3, 4>>) = <<<<1, 2, 0, 0>>, <<1, 2, 3, 4>>>>
ASSUME \A la \in 0..3, lb \in 0..3 : LET r == EqLen([j \in 1..lb |-> j], [j \in 1..la |-> 10 + j])
                                      IN  Len(r[1]) = Len(r[2]) /\ Len(r[1]) = (IF la > lb THEN la ELSE lb)
=============================================================================
