------------------------------ MODULE Segments ------------------------------
(***************************************************************************)
(* Growth of the specification beyond the listed properties: the segment   *)
(* bookkeeping of spectrogram.py (Spectrogram.periodogram).  A signal of   *)
(* length L is cut into hops of ws samples; column i of the result is the  *)
(* periodogram (NFFT = 4W) of signal[i*ws : i*ws + W] (a Python slice: it  *)
(* is clipped at L); the code computes NSeg - 8 columns, NSeg = L div ws.  *)
(* One action per column, as in the loop of the code.                      *)
(*                                                                         *)
(* Named behaviours of the code, modelled as they are:                     *)
(*   - the last 8 hops never start a column (`N-8`)                        *)
(*   - fewer than 8 hops: numpy refuses the negative dimension ("refused") *)
(*   - a window longer than the remaining signal is silently shortened     *)
(***************************************************************************)
EXTENDS Integers, Sequences, TLC

CONSTANTS MaxL, MaxWs, MaxW

VARIABLES L, ws, W, i, cols, phase

vars == <<L, ws, W, i, cols, phase>>

NSeg == L \div ws
NCols == NSeg - 8
Min(a, b) == IF a <= b THEN a ELSE b

Init == /\ L \in 1..MaxL /\ ws \in 1..MaxWs /\ W \in 1..MaxW
        /\ i = 0 /\ cols = <<>>
        /\ phase = IF NCols < 0 THEN "refused" ELSE IF NCols = 0 THEN "done" ELSE "loop"

Column == /\ phase = "loop"
          /\ cols' = Append(cols, <<i * ws, Min(i * ws + W, L)>>)
          /\ i' = i + 1
          /\ phase' = IF i + 1 = NCols THEN "done" ELSE "loop"
          /\ UNCHANGED <<L, ws, W>>

Next == Column
Spec == Init /\ [][Next]_vars

---------------------------------------------------------------------------
Rows == 2 * W + 1          \* one-sided length of an NFFT = 4W periodogram of real data

NonEmpty == \A c \in 1..Len(cols) : cols[c][1] < cols[c][2]
HopIsWs == \A c \in 1..Len(cols) : cols[c][1] = (c - 1) * ws
FullWindowIffFits == \A c \in 1..Len(cols) : (cols[c][2] - cols[c][1] = W) <=> ((c - 1) * ws + W <= L)
NeverBeyondSignal == \A c \in 1..Len(cols) : cols[c][2] <= L
ColumnCount == phase = "done" => Len(cols) = NCols
\* the tail of the signal that no column starts in: at least 8 hops
TailSkipped == phase = "done" => L - (IF NCols = 0 THEN 0 ELSE cols[NCols][1] + ws) >= 8 * ws
Refusal == (phase = "refused") <=> (L < 8 * ws)
=============================================================================
