------------------------------ MODULE PowerAttr ------------------------------
(***************************************************************************)
(* Growth of the specification beyond the listed properties:               *)
(* Spectrum.power() on top of SidesConv.tla (a stored vector under every   *)
(* sequence of `sides` assignments).  The code computes                    *)
(*     scale_by_freq = False :  sum(psd) * len(psd)                        *)
(*     scale_by_freq = True  :  sum(psd) * df / (2 pi)                     *)
(* Since every conversion preserves sum(psd) (C06, PowerPreserved), the    *)
(* second form does not depend on the layout.  The first one does - it is  *)
(* multiplied by the number of stored entries, which differs between the   *)
(* one-sided and the two-sided layouts of the same spectrum; this is a     *)
(* named behaviour of the code ("todo: check these equations" in the       *)
(* source), modelled as it is.                                             *)
(***************************************************************************)
EXTENDS SidesConv

\* what power() returns with scaling off, in the model's integer units
PowerUnscaled == SumSeq(vec) * Len(vec)
\* with scaling on the stored vector is vec * 2 pi/df and power() multiplies by df/(2 pi) again
PowerScaledUnits == SumSeq(vec)

ScaledPowerLayoutFree == PowerScaledUnits = SumSeq(Orig)
UnscaledPowerIsSumTimesLength == PowerUnscaled = SumSeq(Orig) * SLen(sides, n)
\* the named behaviour: one-sided and two-sided layouts of the same real spectrum report different powers
ASSUME LET o == <<2, 2, 2>>            \* n = 4, one-sided
           t == O2T(4, o)
       IN  SumSeq(o) * Len(o) # SumSeq(t) * Len(t)
=============================================================================
