--------------------------- MODULE WindowResponse ---------------------------
(***************************************************************************)
(* Growth of the specification beyond the listed properties: the lazily    *)
(* computed frequency response of a `Window` object (window.py).           *)
(*                                                                         *)
(* State of the object that matters: its length N, its `norm` flag (fixed  *)
(* at construction) and the private response cache, which is either empty  *)
(* or holds a vector of `len` dB values computed with normalisation        *)
(* `normed`.  One action per public entry point, shaped like the code:     *)
(*                                                                         *)
(*   Compute(an, af)   compute_response(norm=an, NFFT=af); "default"/0 =   *)
(*                     keyword absent.  norm defaults to the object's      *)
(*                     flag, NFFT to 2048; an NFFT below N is replaced by  *)
(*                     2N (also when the *default* 2048 is below N).       *)
(*                     Always overwrites the cache.                        *)
(*   ReadResponse      `response`: fills an empty cache with the defaults, *)
(*                     never touches a filled one.                         *)
(*   ReadFrequencies   `frequencies`: same lazy fill; returns a linspace   *)
(*                     of exactly the cache's length.                      *)
(*                                                                         *)
(* `hist` is the bounded history that the conformance harness replays on a *)
(* real object (one behaviour per state); `obs` the length the last read   *)
(* returned.                                                               *)
(***************************************************************************)
EXTENDS Integers, Sequences, TLC

CONSTANTS Ns,        \* window lengths
          NFFTs,     \* explicit NFFT arguments (0 = keyword absent)
          MaxOps

DefaultNFFT == 2048
NormArgs == {"default", "true", "false"}

VARIABLES N, onorm, cache, hist, obs

vars == <<N, onorm, cache, hist, obs>>

Empty == [valid |-> FALSE, len |-> 0, normed |-> FALSE]

EffLen(n, af) == LET f == IF af = 0 THEN DefaultNFFT ELSE af
                 IN  IF f < n THEN 2 * n ELSE f
EffNorm(an) == IF an = "default" THEN onorm ELSE an = "true"

Filled(an, af) == [valid |-> TRUE, len |-> EffLen(N, af), normed |-> EffNorm(an)]
LazyFill == IF cache.valid THEN cache ELSE Filled("default", 0)

Init == /\ N \in Ns /\ onorm \in BOOLEAN
        /\ cache = Empty /\ hist = <<>> /\ obs = 0

Compute(an, af) ==
    /\ cache' = Filled(an, af)
    /\ hist' = Append(hist, [op |-> "compute", norm |-> an, nfft |-> af])
    /\ obs' = 0                       \* what an earlier read returned describes a vector that is gone
    /\ UNCHANGED <<N, onorm>>

ReadResponse ==
    /\ cache' = LazyFill
    /\ obs' = cache'.len
    /\ hist' = Append(hist, [op |-> "response", norm |-> "default", nfft |-> 0])
    /\ UNCHANGED <<N, onorm>>

ReadFrequencies ==
    /\ cache' = LazyFill
    /\ obs' = cache'.len
    /\ hist' = Append(hist, [op |-> "frequencies", norm |-> "default", nfft |-> 0])
    /\ UNCHANGED <<N, onorm>>

Next == /\ Len(hist) < MaxOps
        /\ \/ \E an \in NormArgs, af \in NFFTs : Compute(an, af)
           \/ ReadResponse
           \/ ReadFrequencies

Spec == Init /\ [][Next]_vars

---------------------------------------------------------------------------
TypeOK == /\ cache.valid \in BOOLEAN /\ cache.len \in Nat /\ cache.normed \in BOOLEAN
          /\ obs \in Nat

\* the response never has fewer points than the window has samples (no truncating DFT)
NeverTruncates == cache.valid => cache.len >= N
\* what a read returned is the length of what is stored: frequencies and response always pair up
ReadsPairUp == obs # 0 => (cache.valid /\ obs = cache.len)
\* the cache is only ever empty on an object nothing was asked of
EmptyOnlyAtStart == ~cache.valid <=> hist = <<>>
\* reads fill an empty cache with the defaults and otherwise leave it alone; only compute_response replaces it
ReadsDoNotRecompute ==
    [][(cache.valid /\ cache' # cache) => hist'[Len(hist')].op = "compute"]_vars
LazyFillUsesDefaults ==
    [][(~cache.valid /\ hist'[Len(hist')].op # "compute")
         => cache' = [valid |-> TRUE, len |-> EffLen(N, 0), normed |-> onorm]]_vars
=============================================================================
