------------------------------- MODULE Daniell -------------------------------
(***************************************************************************)
(* Growth of the specification beyond the listed properties: Daniell's     *)
(* smoothed periodogram (periodogram.py: DaniellPeriodogram, pdaniell) as  *)
(* the state machine the code is - a decimating moving average over a      *)
(* stored periodogram psd[0..N-1] with half-width P:                       *)
(*                                                                         *)
(*   slice S = 2P+1;  output length newN: ceil(N/S) when that has the      *)
(*   parity of N (odd N = one-sided PSD of real data, even N = two-sided   *)
(*   PSD of complex data), floor(N/S) otherwise                            *)
(*   out[i] = mean of psd[n] over n in i*S-P .. i*S+P that are *valid*     *)
(*                                                                         *)
(* Mechanism: the two nested loops of the code (Accumulate one n per step, *)
(* Emit one output).  Envelope: MeanOfWindow and its consequences.         *)
(*                                                                         *)
(* Deliberate deviation, named: the code tests `n > 0`, not `n >= 0`, so   *)
(* the DC bin never enters any average (DcIncluded = FALSE models the code *)
(* as it is; with P = 0 the first output is 0/0, represented by Undef,     *)
(* although the docstring promises "DaniellPeriodogram(data, 0) should     *)
(* give the original PSD").  Outside the listed properties: reported in    *)
(* DESIGN.md, not repaired.                                                *)
(***************************************************************************)
EXTENDS Rat, TLC, FiniteSets

CONSTANTS MaxN, MaxP, Vals, DcIncluded

VARIABLES psd,     \* sequence of integers, psd[n+1] = bin n
          P,       \* half width
          i,       \* output index being computed (0-based)
          n,       \* next input index of the inner loop
          acc, count,
          out,     \* finished outputs (Rat or Undef)
          phase    \* "loop" | "done"

vars == <<psd, P, i, n, acc, count, out, phase>>

Undef == <<0, -1>>          \* 0/0 (numpy: nan)

N == Len(psd)
S == 2 * P + 1
CeilDiv(a, b) == (a + b - 1) \div b
NewN == LET c == CeilDiv(N, S)
        IN  IF c % 2 = N % 2 THEN c ELSE N \div S

Valid(m) == m < N /\ (IF DcIncluded THEN m >= 0 ELSE m > 0)

Init == /\ \E len \in 1..MaxN : psd \in [1..len -> Vals]
        /\ P \in 0..MaxP
        /\ i = 0 /\ n = -P /\ acc = 0 /\ count = 0 /\ out = <<>>
        /\ phase = IF NewN = 0 THEN "done" ELSE "loop"

\* one iteration of the inner loop
Accumulate == /\ phase = "loop"
              /\ n <= i * S + P
              /\ IF Valid(n) THEN acc' = acc + psd[n + 1] /\ count' = count + 1
                             ELSE UNCHANGED <<acc, count>>
              /\ n' = n + 1
              /\ UNCHANGED <<psd, P, i, out, phase>>

\* end of the inner loop: newpsd[i] /= count
Emit == /\ phase = "loop"
        /\ n = i * S + P + 1
        /\ out' = Append(out, IF count = 0 THEN Undef ELSE RFrac(acc, count))
        /\ i' = i + 1
        /\ n' = (i + 1) * S - P
        /\ acc' = 0 /\ count' = 0
        /\ phase' = IF i + 1 = NewN THEN "done" ELSE "loop"
        /\ UNCHANGED <<psd, P>>

Next == Accumulate \/ Emit
Spec == Init /\ [][Next]_vars

---------------------------------------------------------------------------
\* Envelope
Window(j) == {m \in (j * S - P)..(j * S + P) : Valid(m)}
RECURSIVE SumOver(_)
SumOver(s) == IF s = {} THEN 0 ELSE LET m == CHOOSE m \in s : TRUE IN psd[m + 1] + SumOver(s \ {m})
MeanOf(j) == IF Window(j) = {} THEN Undef ELSE RFrac(SumOver(Window(j)), Cardinality(Window(j)))

Done == phase = "done"

\* every finished output is the mean of its window
MeanOfWindow == \A j \in 1..Len(out) : out[j] = MeanOf(j - 1)
\* the layout convention survives: odd length stays odd, even stays even
ParityKept == Done => (Len(out) = NewN /\ (NewN > 0 => NewN % 2 = N % 2))
\* windows of consecutive outputs are adjacent and disjoint: input bins used at most once, in order
Partition == \A j \in 0..(NewN - 2) : j * S + P + 1 = (j + 1) * S - P
\* a moving average stays within the range of its inputs
Bounded == \A j \in 1..Len(out) : out[j] # Undef =>
               \E lo \in Window(j - 1), hi \in Window(j - 1) : RLe(RInt(psd[lo + 1]), out[j]) /\ RLe(out[j], RInt(psd[hi + 1]))
\* P = 0: the identity on every bin that is averaged at all
IdentityAtZero == (Done /\ P = 0) => \A j \in 1..Len(out) : out[j] = (IF Valid(j - 1) THEN RInt(psd[j]) ELSE Undef)
\* the named deviation: with the code's guard the DC bin is never used
DcNeverUsed == ~DcIncluded => \A j \in 0..(NewN - 1) : 0 \notin Window(j)
=============================================================================
