------------------------------ MODULE LevSteps ------------------------------
(***************************************************************************)
(* Growth of the specification beyond the listed properties: the single-   *)
(* step helpers of levinson.py                                             *)
(*     levup(acur, knxt, ecur)   one stage forward                         *)
(*     levdown(anxt, enxt)       one stage backward                        *)
(*     rlevinson(a, efinal)      inverse Levinson: R, U, kr, e             *)
(* on top of the Levinson stage machine and the definitions of LinPred.tla.*)
(* Every positive-definite state (r, A, P, ref) of order p >= 1 contains   *)
(* the whole ladder of lower-order solutions: the order-m polynomial is    *)
(* StepUp(ref[1..m]) and its error ErrAfter(ref[1..m], r0).                *)
(*                                                                         *)
(* Mechanism (what the helpers compute, transcribed):                      *)
(*   LevUp, LevDown                                                        *)
(* Envelope (what they mean):                                              *)
(*   UpIsNextOrder / DownIsPrevOrder / DownUndoesUp                        *)
(*   UFactorises:  U^H T U = diag(E_0 .. E_p)  with U the matrix returned  *)
(*                 by rlevinson (column m = conjugated reversed order-m    *)
(*                 polynomial) - the triangular factorisation of T^-1      *)
(***************************************************************************)
EXTENDS LinPred

Prefix(s, m) == SubSeq(s, 1, m)

\* polynomial (a_1..a_m) and error of order m contained in the state
PolyOf(m) == StepUp(Prefix(ref, m))
ErrOf(m)  == ErrAfter(Prefix(ref, m), r[1][1])

\* levup: anxt = [acur, 0] + k [conj(reverse(acur)), 1];  enxt = (1 - |k|^2) ecur
LevUp(a, k, e) ==
    LET m == Len(a) + 1
    IN  [poly |-> [j \in 1..m |-> IF j = m THEN k ELSE CAdd(a[j], CMul(k, CConj(a[m - j])))],
         err  |-> RMul(RSub(One, CAbs2(k)), e)]

\* levdown: k = last coefficient; acur = (a[0:-1] - k conj(reverse(a[0:-1]))) / (1 - |k|^2);
\*          ecur = enxt / (1 - |k|^2)
LevDown(a, e) ==
    LET m   == Len(a)
        k   == a[m]
        den == RSub(One, CAbs2(k))
    IN  [poly |-> [j \in 1..(m - 1) |-> CScale(RInv(den), CSub(a[j], CMul(k, CConj(a[m - j]))))],
         err  |-> RDiv(e, den),
         k    |-> k]

Ladder == status = "pd" /\ Order >= 1

UpIsNextOrder ==
    Ladder => \A m \in 1..Order :
                 LET up == LevUp(PolyOf(m - 1), ref[m], ErrOf(m - 1))
                 IN  CSeqEqOrOvf(up.poly, PolyOf(m)) /\ REqOrOvf(up.err, ErrOf(m))

DownIsPrevOrder ==
    Ladder => \A m \in 1..Order :
                 LET dn == LevDown(PolyOf(m), ErrOf(m))
                 IN  /\ CSeqEqOrOvf(dn.poly, PolyOf(m - 1))
                     /\ REqOrOvf(dn.err, ErrOf(m - 1))
                     /\ dn.k = ref[m]

DownUndoesUp ==
    Ladder => LET up == LevUp(PolyOf(Order - 1), ref[Order], ErrOf(Order - 1))
                  dn == LevDown(up.poly, up.err)
              IN  CSeqEqOrOvf(dn.poly, PolyOf(Order - 1)) /\ REqOrOvf(dn.err, ErrOf(Order - 1))

\* the top of the ladder is the state itself
TopIsState == Ladder => (CSeqEqOrOvf(PolyOf(Order), A) /\ REqOrOvf(ErrOf(Order), P))

\* rlevinson's U (0-based rows i, columns m): U[i][m] = conj(coefficient m-i of the order-m polynomial)
FullCoef(m, j) == IF j = 0 THEN COne ELSE PolyOf(m)[j]
UEntry(i, m) == IF i > m THEN CZero ELSE CConj(FullCoef(m, m - i))

\* (U^H T U)[m][n] = sum_{i,j} conj(U[i][m]) T[i][j] U[j][n]
UTU(m, n) == CSumSeq([i \in 1..(Order + 1) |->
                 CSumSeq([j \in 1..(Order + 1) |->
                     CMul(CConj(UEntry(i - 1, m)), CMul(TEntry(i - 1, j - 1), UEntry(j - 1, n)))])])

UFactorises ==
    Ladder => \A m \in 0..Order : \A n \in 0..Order :
                 CEqOrOvf(UTU(m, n), IF m = n THEN CReal(ErrOf(m)) ELSE CZero)

\* first row of U: conjugated reflection coefficients (how rlevinson reads kr off U)
UFirstRow == Ladder => \A m \in 1..Order : UEntry(0, m) = CConj(ref[m])
=============================================================================
