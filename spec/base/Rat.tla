------------------------------- MODULE Rat -------------------------------
(***************************************************************************)
(* Exact rational arithmetic for TLC (32-bit integers).                    *)
(*                                                                         *)
(* A rational is a pair <<n, d>> with d > 0 and gcd(|n|, d) = 1.  The pair *)
(* <<0, 0>> is the overflow sentinel OVF: every operation that would leave *)
(* the safe integer range returns it and every operation propagates it, so *)
(* a kernel specification never aborts TLC; states that carry OVF are      *)
(* excluded from invariants / replay and *counted* by the harness.         *)
(***************************************************************************)
EXTENDS Integers, Sequences

Abs(x) == IF x < 0 THEN -x ELSE x

RECURSIVE Gcd(_, _)
Gcd(a, b) == IF b = 0 THEN a ELSE Gcd(b, a % b)

\* products are kept below 2^30 so that a sum of two products cannot overflow
Lim == 1073741823

MulOk(a, b) == a = 0 \/ b = 0 \/ Abs(a) <= Lim \div Abs(b)

OVF == <<0, 0>>
IsOvf(r) == r[2] = 0

Zero == <<0, 1>>
One  == <<1, 1>>
RInt(n) == <<n, 1>>

\* exact division helper (g divides n)
ExDiv(n, g) == IF n >= 0 THEN n \div g ELSE -((-n) \div g)

RNorm(n, d) ==
    IF d = 0 THEN OVF
    ELSE LET g == Gcd(Abs(n), Abs(d))
             s == IF d < 0 THEN -1 ELSE 1
         IN  <<s * ExDiv(n, g), s * ExDiv(d, g)>>

\* build p/q from two integers
RFrac(p, q) == RNorm(p, q)

RNeg(a) == IF IsOvf(a) THEN OVF ELSE <<-a[1], a[2]>>

RAdd(a, b) ==
    IF IsOvf(a) \/ IsOvf(b) THEN OVF
    ELSE LET g  == Gcd(a[2], b[2])
             da == a[2] \div g
             db == b[2] \div g
         IN  IF MulOk(a[1], db) /\ MulOk(b[1], da) /\ MulOk(da, b[2])
             THEN RNorm(a[1] * db + b[1] * da, da * b[2])
             ELSE OVF

RSub(a, b) == RAdd(a, RNeg(b))

RMul(a, b) ==
    IF IsOvf(a) \/ IsOvf(b) THEN OVF
    ELSE IF a[1] = 0 \/ b[1] = 0 THEN Zero
    ELSE LET g1 == Gcd(Abs(a[1]), b[2])
             g2 == Gcd(Abs(b[1]), a[2])
             n1 == ExDiv(a[1], g1)
             n2 == ExDiv(b[1], g2)
             d1 == a[2] \div g2
             d2 == b[2] \div g1
         IN  IF MulOk(n1, n2) /\ MulOk(d1, d2)
             THEN <<n1 * n2, d1 * d2>>
             ELSE OVF

\* inverse; division by zero yields OVF (callers test IsZero first)
RInv(a) ==
    IF IsOvf(a) \/ a[1] = 0 THEN OVF
    ELSE IF a[1] > 0 THEN <<a[2], a[1]>> ELSE <<-a[2], -a[1]>>

RDiv(a, b) == RMul(a, RInv(b))

RIsZero(a) == ~IsOvf(a) /\ a[1] = 0
RSign(a)   == IF a[1] > 0 THEN 1 ELSE IF a[1] < 0 THEN -1 ELSE 0
RPos(a)    == ~IsOvf(a) /\ a[1] > 0
RNegative(a) == ~IsOvf(a) /\ a[1] < 0

\* exact three-way comparison of two rationals *without multiplication* (never
\* overflows): compare integer parts, then the reciprocals of the fractional parts
\* (continued-fraction expansion).  Result: -1, 0, 1.
RECURSIVE CmpFrac(_, _, _, _)
CmpFrac(n1, d1, n2, d2) ==      \* d1, d2 > 0
    LET q1 == n1 \div d1
        q2 == n2 \div d2
        r1 == n1 % d1
        r2 == n2 % d2
    IN  IF q1 < q2 THEN -1
        ELSE IF q1 > q2 THEN 1
        ELSE IF r1 = 0 /\ r2 = 0 THEN 0
        ELSE IF r1 = 0 THEN -1
        ELSE IF r2 = 0 THEN 1
        ELSE -CmpFrac(d1, r1, d2, r2)     \* r1/d1 ? r2/d2  <=>  d2/r2 ? d1/r1
RCmp(a, b) == CmpFrac(a[1], a[2], b[1], b[2])

\* comparisons (FALSE when an operand is the overflow sentinel)
RLt(a, b) == ~IsOvf(a) /\ ~IsOvf(b) /\ RCmp(a, b) < 0
RLe(a, b) == ~IsOvf(a) /\ ~IsOvf(b) /\ RCmp(a, b) <= 0
REq(a, b) == a = b   \* normal forms are unique

RAbs(a) == IF IsOvf(a) THEN OVF ELSE <<Abs(a[1]), a[2]>>

\* sum / product of a sequence of rationals
RECURSIVE RSumSeq(_)
RSumSeq(s) == IF s = <<>> THEN Zero ELSE RAdd(Head(s), RSumSeq(Tail(s)))

RECURSIVE RProdSeq(_)
RProdSeq(s) == IF s = <<>> THEN One ELSE RMul(Head(s), RProdSeq(Tail(s)))

\* sum over i \in a..b of f(i)  (f is an operator)
RECURSIVE RSum(_, _, _)
RSum(F(_), a, b) == IF a > b THEN Zero ELSE RAdd(F(a), RSum(F, a + 1, b))

\* sum of F(i) for i in lo..hi (empty sum = 0); F is an operator (LAMBDA)
RSumFn(F(_), lo, hi) == RSumSeq([i \in 1..((hi - lo) + 1) |-> F((lo + i) - 1)])

\* equality that holds vacuously when an operand overflowed (used by invariants: a state whose
\* *check* overflows is not a counterexample)
REqOrOvf(a, b) == IsOvf(a) \/ IsOvf(b) \/ a = b

SeqHasOvf(s) == \E i \in 1..Len(s) : IsOvf(s[i])
=============================================================================
