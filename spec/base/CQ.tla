------------------------------- MODULE CQ --------------------------------
(***************************************************************************)
(* Complex rationals (Gaussian rationals) on top of Rat.                   *)
(* A complex number is <<re, im>> with re, im rationals of module Rat.     *)
(* OVF propagates: a number is "bad" when either part is the sentinel.     *)
(***************************************************************************)
EXTENDS Rat

CZero == <<Zero, Zero>>
COne  == <<One, Zero>>
CI    == <<Zero, One>>

CBad(z) == IsOvf(z[1]) \/ IsOvf(z[2])
COVF == <<OVF, OVF>>

CReal(r)   == <<r, Zero>>
CInt(n)    == <<RInt(n), Zero>>
CGauss(a, b) == <<RInt(a), RInt(b)>>

CRe(z) == z[1]
CIm(z) == z[2]

CConj(z) == <<z[1], RNeg(z[2])>>
CNeg(z)  == <<RNeg(z[1]), RNeg(z[2])>>
CAdd(a, b) == <<RAdd(a[1], b[1]), RAdd(a[2], b[2])>>
CSub(a, b) == <<RSub(a[1], b[1]), RSub(a[2], b[2])>>
CMul(a, b) == <<RSub(RMul(a[1], b[1]), RMul(a[2], b[2])),
                RAdd(RMul(a[1], b[2]), RMul(a[2], b[1]))>>
CScale(r, z) == <<RMul(r, z[1]), RMul(r, z[2])>>      \* rational * complex
CAbs2(z) == RAdd(RMul(z[1], z[1]), RMul(z[2], z[2]))  \* |z|^2, a rational
CIsZero(z) == RIsZero(z[1]) /\ RIsZero(z[2])
CIsReal(z) == RIsZero(z[2])
CInv(z) == LET m == CAbs2(z) IN
           IF IsOvf(m) \/ RIsZero(m) THEN COVF
           ELSE <<RDiv(z[1], m), RNeg(RDiv(z[2], m))>>
CDiv(a, b) == CMul(a, CInv(b))

RECURSIVE CSumSeq(_)
CSumSeq(s) == IF s = <<>> THEN CZero ELSE CAdd(Head(s), CSumSeq(Tail(s)))

CSumFn(F(_), lo, hi) == CSumSeq([i \in 1..((hi - lo) + 1) |-> F((lo + i) - 1)])

CSeqBad(s) == \E i \in 1..Len(s) : CBad(s[i])
CEqOrOvf(a, b) == CBad(a) \/ CBad(b) \/ a = b
CSeqEqOrOvf(s, t) == CSeqBad(s) \/ CSeqBad(t) \/ s = t

\* multiplication by i^k
CMulIPow(z, k) == LET m == k % 4 IN
    IF m = 0 THEN z
    ELSE IF m = 1 THEN <<RNeg(z[2]), z[1]>>
    ELSE IF m = 2 THEN CNeg(z)
    ELSE <<z[2], RNeg(z[1])>>
=============================================================================
