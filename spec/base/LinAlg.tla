------------------------------- MODULE LinAlg -------------------------------
(***************************************************************************)
(* Exact dense linear algebra over the complex rationals (small sizes):    *)
(* Gaussian elimination with first-non-zero pivoting, matrix products.     *)
(* A matrix is a sequence of rows (sequences of CQ).                       *)
(***************************************************************************)
EXTENDS CQ

NRows(M) == Len(M)
NCols(M) == IF M = <<>> THEN 0 ELSE Len(M[1])

MatVec(M, v) == [i \in 1..Len(M) |-> CSumSeq([j \in 1..Len(v) |-> CMul(M[i][j], v[j])])]
Dot(u, v) == CSumSeq([i \in 1..Len(u) |-> CMul(CConj(u[i]), v[i])])       \* u^H v
ConjT(M) == [j \in 1..NCols(M) |-> [i \in 1..Len(M) |-> CConj(M[i][j])]]
MatMul(A, B) == [i \in 1..Len(A) |-> [j \in 1..NCols(B) |->
                   CSumSeq([k \in 1..Len(B) |-> CMul(A[i][k], B[k][j])])]]
Column(M, j) == [i \in 1..Len(M) |-> M[i][j]]
DropCol1(M) == [i \in 1..Len(M) |-> SubSeq(M[i], 2, Len(M[i]))]

NoSolution == [ok |-> FALSE, x |-> <<>>]

\* solve M x = b (M square).  ok = FALSE when M is singular (or on overflow).
RECURSIVE Gauss(_, _)
Gauss(M, b) ==
    LET n == Len(M) IN
    IF n = 0 THEN [ok |-> TRUE, x |-> <<>>]
    ELSE LET cand == {i \in 1..n : ~CIsZero(M[i][1]) /\ ~CBad(M[i][1])}
         IN  IF cand = {} THEN NoSolution
             ELSE LET p    == CHOOSE i \in cand : \A j \in cand : i <= j
                      prow == M[p]
                      pb   == b[p]
                      inv  == CInv(prow[1])
                      rest == [i \in 1..(n - 1) |-> IF i < p THEN i ELSE i + 1]    \* indices of the other rows
                      \* eliminate the first column from the other rows
                      sub  == [i \in 1..(n - 1) |->
                                 LET r == M[rest[i]]
                                     f == CMul(r[1], inv)
                                 IN  [j \in 1..(n - 1) |-> CSub(r[j + 1], CMul(f, prow[j + 1]))]]
                      subb == [i \in 1..(n - 1) |->
                                 LET r == M[rest[i]]
                                     f == CMul(r[1], inv)
                                 IN  CSub(b[rest[i]], CMul(f, pb))]
                      tail == Gauss(sub, subb)
                  IN  IF ~tail.ok THEN NoSolution
                      ELSE LET acc == CSumSeq([j \in 1..(n - 1) |-> CMul(prow[j + 1], tail.x[j])])
                               x1  == CMul(CSub(pb, acc), inv)
                           IN  IF CBad(x1) THEN NoSolution
                               ELSE [ok |-> TRUE, x |-> <<x1>> \o tail.x]
=============================================================================
