"""Run TLC on the specifications of /verif/spec and collect what it explored."""
import os
import re
import shutil
import subprocess
import time
import uuid

VERIF = os.path.dirname(os.path.dirname(os.path.abspath(__file__)))
SPEC = os.path.join(VERIF, 'spec')
WORK = os.path.join(VERIF, '.work')
JAR = '/opt/veriftools/tla/tla2tools.jar:/opt/veriftools/tla/CommunityModules-deps.jar'


class TlcError(Exception):
    """Machinery failure (parse error, evaluation error, spec-level invariant
    violated: the *model* is wrong, which is never a property verdict)."""


def new_workdir(tag):
    d = os.path.join(WORK, '%s-%s' % (tag, uuid.uuid4().hex[:8]))
    os.makedirs(d)
    for sub in ('base', 'obj', 'kern', 'ext', 'mc'):
        sd = os.path.join(SPEC, sub)
        if not os.path.isdir(sd):
            continue
        for f in os.listdir(sd):
            if f.endswith('.tla'):
                shutil.copy(os.path.join(sd, f), os.path.join(d, f))
    return d


def cleanup(d):
    shutil.rmtree(d, ignore_errors=True)


class TlcResult(object):
    def __init__(self):
        self.generated = 0
        self.distinct = 0
        self.depth = 0
        self.stdout = ''
        self.dump = None
        self.workdir = None
        self.wall = 0.0
        self.coverage = {}
        self.printed = []

    def states(self):
        from . import tlaval
        return tlaval.iter_dump(self.dump)


def _cfg_text(spec='Spec', constants=None, invariants=(), properties=(), constraint=None,
              action_constraint=None, view=None, deadlock=False, postcondition=None,
              init=None, next_=None, symmetry=None):
    lines = []
    if init:
        lines += ['INIT %s' % init, 'NEXT %s' % next_]
    else:
        lines.append('SPECIFICATION %s' % spec)
    if constants:
        lines.append('CONSTANTS')
        for k, v in constants.items():
            if isinstance(v, str) and v.startswith('<-'):
                lines.append('  %s %s' % (k, v))
            else:
                lines.append('  %s = %s' % (k, tla(v)))
    for i in invariants:
        lines.append('INVARIANT %s' % i)
    for p in properties:
        lines.append('PROPERTY %s' % p)
    if constraint:
        lines.append('CONSTRAINT %s' % constraint)
    if action_constraint:
        lines.append('ACTION_CONSTRAINT %s' % action_constraint)
    if view:
        lines.append('VIEW %s' % view)
    if postcondition:
        lines.append('POSTCONDITION %s' % postcondition)
    if symmetry:
        lines.append('SYMMETRY %s' % symmetry)
    lines.append('CHECK_DEADLOCK %s' % ('TRUE' if deadlock else 'FALSE'))
    return '\n'.join(lines) + '\n'


def tla(v):
    """Python value -> TLA+ literal usable in a cfg file (no negative numbers!)."""
    if isinstance(v, bool):
        return 'TRUE' if v else 'FALSE'
    if isinstance(v, int):
        if v < 0:
            raise ValueError('cfg files reject negative numbers; use <-Def')
        return str(v)
    if isinstance(v, str):
        return '"%s"' % v
    if isinstance(v, (set, frozenset)):
        return '{' + ', '.join(sorted(tla(x) for x in v)) + '}'
    if isinstance(v, (list, tuple)):
        return '<<' + ', '.join(tla(x) for x in v) + '>>'
    raise ValueError('cannot render %r' % (v,))


def tla_expr(v):
    """Python value -> TLA+ expression (usable inside a module; negatives fine)."""
    if isinstance(v, bool):
        return 'TRUE' if v else 'FALSE'
    if isinstance(v, int):
        return '(%d)' % v if v < 0 else str(v)
    if isinstance(v, str):
        return '"%s"' % v
    if isinstance(v, (set, frozenset)):
        return '{' + ', '.join(tla_expr(x) for x in sorted(v, key=repr)) + '}'
    if isinstance(v, (list, tuple)):
        return '<<' + ', '.join(tla_expr(x) for x in v) + '>>'
    if isinstance(v, dict):
        return '[' + ', '.join('%s |-> %s' % (k, tla_expr(x)) for k, x in v.items()) + ']'
    raise ValueError('cannot render %r' % (v,))


_STATS = re.compile(r'(\d+) states generated, (\d+) distinct states found')
_DEPTH = re.compile(r'The depth of the complete state graph search is (\d+)')


def run(module, cfg, tag='tlc', workers=16, dump=True, simulate=None, depth=None,
        coverage=False, timeout=3600, env=None, extra_files=None, keep=False,
        jvm=None, seed=None, dump_dot=False):
    """Run TLC on `module` (a module name present under spec/) with cfg text `cfg`.

    Returns TlcResult.  Raises TlcError on anything but a clean 'No error has been
    found' (spec-level invariant violations included: see TlcError).
    The caller owns result.workdir and must call cleanup(result.workdir).
    """
    d = new_workdir(tag)
    if extra_files:
        for name, text in extra_files.items():
            with open(os.path.join(d, name), 'w') as f:
                f.write(text)
    with open(os.path.join(d, module + '.cfg'), 'w') as f:
        f.write(cfg)
    cmd = ['java', '-XX:+UseSerialGC', '-Xss16m', '-Xmx6g', '-XX:TieredStopAtLevel=1'] if not os.environ.get('VERIF_TLC_C2') else ['java', '-XX:+UseParallelGC', '-XX:ParallelGCThreads=4', '-Xss16m', '-Xmx8g']
    if jvm:
        cmd += jvm
    cmd += ['-cp', JAR, 'tlc2.TLC', '-workers', str(workers), '-metadir', os.path.join(d, 'md'),
            '-noGenerateSpecTE']
    res = TlcResult()
    res.workdir = d
    if simulate:
        cmd += ['-simulate', simulate]
        if depth:
            cmd += ['-depth', str(depth)]
        if seed is not None:
            cmd += ['-seed', str(seed)]
    elif dump:
        if dump_dot:
            cmd += ['-dump', 'dot,actionlabels', os.path.join(d, 'graph')]
            res.dump = os.path.join(d, 'graph.dot')
        else:
            cmd += ['-dump', os.path.join(d, 'states')]
            res.dump = os.path.join(d, 'states.dump')
    if coverage:
        cmd += ['-coverage', '1']
    cmd.append(module)
    e = dict(os.environ)
    if env:
        e.update(env)
    t0 = time.time()
    try:
        p = subprocess.run(cmd, cwd=d, env=e, stdout=subprocess.PIPE, stderr=subprocess.STDOUT,
                           timeout=timeout, universal_newlines=True)
    except subprocess.TimeoutExpired as ex:
        out = ex.stdout or ''
        if isinstance(out, bytes):
            out = out.decode('utf-8', 'replace')
        subprocess.call(['pkill', '-f', d])
        if not simulate:
            raise TlcError('TLC timed out after %ss on %s\n%s' % (timeout, module, out[-2000:]))
        res.stdout = out
        res.wall = time.time() - t0
        return res
    res.wall = time.time() - t0
    res.stdout = p.stdout
    m = None
    for m in _STATS.finditer(p.stdout):
        pass
    if m:
        res.generated = int(m.group(1))
        res.distinct = int(m.group(2))
    m = _DEPTH.search(p.stdout)
    if m:
        res.depth = int(m.group(1))
    ok = 'Model checking completed. No error has been found.' in p.stdout
    if simulate and not ok:
        # simulation mode ends by limit; an error would print 'Error:'
        ok = 'Error:' not in p.stdout
    if not ok or p.returncode != 0:
        tail = '\n'.join(l for l in p.stdout.splitlines() if not l.startswith(('Parsing', 'Semantic', 'Linting')))
        if not keep:
            cleanup(d)
        raise TlcError('TLC failed on %s (rc=%s):\n%s' % (module, p.returncode, tail[-6000:]))
    if coverage:
        res.coverage = parse_coverage(p.stdout)
    return res


_COV = re.compile(r'^<(\w+) line (\d+), col (\d+) to line (\d+), col (\d+) of module (\w+)>: (\d+):(\d+)', re.M)


def parse_coverage(out):
    cov = {}
    for m in _COV.finditer(out):
        cov.setdefault(m.group(1), [0, 0])
        cov[m.group(1)][0] += int(m.group(7))
        cov[m.group(1)][1] += int(m.group(8))
    return cov


def printed_values(out):
    """Values printed by PrintT (one per line, possibly interleaved with TLC chatter)."""
    from . import tlaval
    vals = []
    for line in out.splitlines():
        line = line.strip()
        if line.startswith(('<<', '[', '{', '"')):
            try:
                vals.append(tlaval.parse_value(line))
            except tlaval.TlaParseError:
                pass
    return vals


_NODE = re.compile(r'^(-?\d+) \[label="((?:[^"\\]|\\.)*)"(.*)\]\s*;?\s*$')
_EDGE = re.compile(r'^(-?\d+) -> (-?\d+) \[label="((?:[^"\\]|\\.)*)"')


def _unesc(s):
    return s.replace('\\n', '\n').replace('\\"', '"').replace('\\\\', '\\')


def parse_dot(path):
    """TLC '-dump dot,actionlabels' -> (nodes {id: state dict}, initial ids, edges [(src, dst, label)])"""
    from . import tlaval
    nodes, init, edges = {}, [], []
    with open(path) as f:
        for line in f:
            m = _EDGE.match(line)
            if m:
                edges.append((m.group(1), m.group(2), _unesc(m.group(3))))
                continue
            m = _NODE.match(line)
            if m:
                nid = m.group(1)
                if nid not in nodes:
                    nodes[nid] = tlaval.parse_state_block(_unesc(m.group(2)) + '\n')
                if 'style = filled' in m.group(3) and nid not in init:
                    init.append(nid)
    return nodes, init, edges


_LABEL = re.compile(r'^(\w+)(?:\((.*)\))?$')


def parse_label(label):
    """'SetSides("twosided")' -> ('SetSides', ['twosided'])"""
    from . import tlaval
    m = _LABEL.match(label.strip())
    if not m:
        return label, []
    if m.group(2) is None or m.group(2).strip() == '':
        return m.group(1), []
    return m.group(1), list(tlaval.parse_value('<<' + m.group(2) + '>>'))
