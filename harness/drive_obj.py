"""Driving the real estimator objects: class table, operations, projections, freshness.

No mathematics here: objects are built and operated through their public API, the
public attributes are read back, and a returned PSD is *identified* by comparing it
with the PSD of freshly constructed real objects (C07 names its own reference).
"""
import copy
import math

import numpy as np

from .kern_util import call_guard

# sampling rates of the model are integers in units of 2^-20: S1 = 1.0, S2 = 2.0, SH = 0.5 and S1N = 1 + 3.8e-6, a rate
# NEAR S1 (a clock-drift correction): a nearby value is another value (whatever numpy.isclose thinks)
SAMP_UNIT = 1 << 20
S1, S2, SH, S1N = SAMP_UNIT, 2 * SAMP_UNIT, SAMP_UNIT // 2, SAMP_UNIT + 4


def _data_tokens():
    rng = np.random.RandomState(12345)
    toks = {}
    for dt in ('real', 'complex'):
        for i, n in enumerate((16, 20)):
            t = np.arange(n)
            x = np.cos(2 * np.pi * 0.17 * t + i) + 0.6 * np.cos(2 * np.pi * 0.31 * t) + 0.4 * rng.randn(n) + 0.3 * (i + 1)
            if dt == 'complex':
                x = x + 1j * (np.sin(2 * np.pi * 0.17 * t + i) + 0.4 * rng.randn(n))
            toks[(dt, i + 1)] = x
    # the samples of the first real vector declared complex (same values, other datatype)
    toks[('complex', 3)] = toks[('real', 1)].astype(complex)
    return toks


DATA = _data_tokens()
DATA_N = (16, 20)
TOKENS = {'real': (1, 2), 'complex': (1, 2, 3)}


def token_len(dt, i):
    return len(DATA[(dt, i)])


class Cls(object):
    def __init__(self, name, kind, ctor, ar=None, ma=None, lags=(0,), windows=('na',), detrends=('na',),
                 nffts=(0, 1, 24, 33), extra=None):
        self.name, self.kind, self.ctor = name, kind, ctor
        self.ar = ar or (0,)
        self.ma = ma or (0,)
        self.lags, self.windows, self.detrends, self.nffts = lags, windows, detrends, nffts
        self.extra = extra or {}


def _import():
    import spectrum
    return spectrum


def _remember(obj, arr):
    """the array the caller handed to the object (the caller keeps it and may go on using it: TouchCallerArray)"""
    try:
        obj._verif_handed = arr
    except Exception:
        pass
    return obj


def _mk(name):
    def build(at, scale=None):
        x = DATA[(at['dt'], at['data'])].copy()
        return _remember(_build(at, scale, x), x)

    def _build(at, scale, x):
        sp = _import()
        kw = dict(NFFT=at['nfft'], sampling=at['samp'] / float(SAMP_UNIT),
                  scale_by_freq=at['scale'] if scale is None else scale)
        det = None if at['detrend'] in ('none', 'na') else at['detrend']
        if name in ('Periodogram', 'pcorrelogram', 'pdaniell'):
            if name == 'Periodogram':
                obj = sp.Periodogram(x, window=at['window'], detrend=det, **kw)
            elif name == 'pcorrelogram':
                obj = sp.pcorrelogram(x, lag=at['lag'], window=at['window'], detrend=det, **kw)
            else:
                obj = sp.pdaniell(x, 2, window=at['window'], detrend=det, **kw)
            # "a freshly constructed object with the same attribute values": the constructor of the unchanged tree
            # does not store `detrend` (it reads back None); assign it before anything is computed
            if getattr(obj, 'detrend', det) != det:
                obj.detrend = det
            return obj
        if name == 'pburg':
            return sp.pburg(x, at['ar'], **kw)
        if name == 'pburg:AIC':
            # order selection: the recursion may stop before the requested order
            return sp.pburg(x, at['ar'], criteria='AIC', **kw)
        if name == 'pyule':
            return sp.pyule(x, at['ar'], **kw)
        if name == 'pcovar':
            return sp.pcovar(x, at['ar'], **kw)
        if name == 'pmodcovar':
            return sp.pmodcovar(x, at['ar'], **kw)
        if name == 'pminvar':
            return sp.pminvar(x, at['ar'], **kw)
        if name == 'parma':
            return sp.parma(x, at['ar'], at['ma'], at['lag'], **kw)
        if name == 'pma':
            return sp.pma(x, at['ma'], at['ar'], **kw)
        if name == 'pmusic':
            return sp.pmusic(x, at['ar'], NSIG=2, **kw)
        if name == 'pev':
            return sp.pev(x, at['ar'], NSIG=2, **kw)
        if name == 'MultiTapering':
            return sp.MultiTapering(x, NW=2.5, k=4, method='eigen', **kw)
        raise KeyError(name)
    return build


CLASSES = {}
for _n, _k, _kw in [
    ('Periodogram', 'fourier', dict(windows=('hann', 'hamming'), detrends=('none', 'mean'), lags=(-1,))),
    ('pcorrelogram', 'fourier', dict(windows=('hamming', 'hann'), detrends=('none',), lags=(4, 6))),
    ('pburg', 'parametric', dict(ar=(2, 3))),
    ('pburg:AIC', 'parametric', dict(ar=(5, 7))),
    ('pyule', 'parametric', dict(ar=(2, 3))),
    ('pcovar', 'parametric', dict(ar=(2, 3))),
    ('pmodcovar', 'parametric', dict(ar=(2, 3))),
    ('pminvar', 'parametric', dict(ar=(3, 4))),
    ('parma', 'parametric', dict(ar=(2, 3), ma=(2, 3), lags=(8, 9))),
    ('pma', 'parametric', dict(ar=(6, 7), ma=(2, 3))),
    ('pmusic', 'parametric', dict(ar=(5, 6), nffts=(0, 1, 24, 32))),
    ('pev', 'parametric', dict(ar=(5, 6), nffts=(0, 1, 24, 32))),
    ('MultiTapering', 'base', dict()),
]:
    CLASSES[_n] = Cls(_n, _k, _mk(_n), **_kw)


def resolve_nfft(arg, N):
    if arg == 0:
        return N
    if arg == 1:
        p = 1
        while p < N:
            p *= 2
        return p
    return arg


def nfft_py(arg):
    return None if arg == 0 else ('nextpow2' if arg == 1 else int(arg))


# ------------------------------------------------------------------ projection
def token_of(p):
    x = p.data
    dt = p.datatype
    for i in TOKENS[dt]:
        ref = DATA[(dt, i)]
        if len(x) == len(ref) and np.array_equal(np.asarray(x), ref):
            return i
    return 0


def attrs_of(p, cls):
    """public attribute values -> the record `a` of SpectrumAbs (JSON-able)"""
    det = getattr(p, 'detrend', None)
    at = {
        'data': token_of(p), 'N': int(p.N), 'dt': p.datatype,
        'nfft': int(p.NFFT) if p.NFFT is not None else 0,
        'samp': int(round(p.sampling * SAMP_UNIT)),
        'sides': p.sides, 'scale': bool(p.scale_by_freq),
        'detrend': ('none' if det is None else det) if cls.kind == 'fourier' else 'na',
        'window': p.window if cls.kind == 'fourier' else 'na',
        'lag': int(p.lag) if (cls.kind == 'fourier' or cls.name == 'parma') else 0,
        'ar': int(p.ar_order) if cls.kind == 'parametric' and p.ar_order is not None else 0,
        'ma': int(p.ma_order) if cls.kind == 'parametric' and p.ma_order is not None and cls.ma != (0,) else 0,
    }
    return at


def axis_of(p):
    """df and frequencies() as the pair samp/nfft plus the length of the current axis"""
    two = p.frequencies('twosided')
    n = len(two)
    df = p.df
    samp = int(round(df * n * SAMP_UNIT)) if n else 0
    return {'samp': samp, 'nfft': n, 'lenf': len(p.frequencies())}


# ------------------------------------------------------------------ operations
NUMPY_SCALARS = [False]     # when set, integer / float arguments are passed as numpy scalars (as in `for lag in np.arange(..)`)


def _num(v):
    if NUMPY_SCALARS[0] and isinstance(v, int) and not isinstance(v, bool):
        return np.int64(v)
    if NUMPY_SCALARS[0] and isinstance(v, float):
        return np.float64(v)
    return v


def apply_op(p, op, arg):
    """apply one public operation; returns (ok, exception)"""
    if op == 'SetData':
        arr = DATA[(arg.get('dt', p.datatype), arg['data'])].copy()
        res = call_guard(setattr, p, 'data', arr)
        _remember(p, arr)
        return res
    if op == 'TouchCallerArray':
        # the caller re-uses the array it handed over (a work buffer): the object's record is its own
        arr = getattr(p, '_verif_handed', None)
        if isinstance(arr, np.ndarray) and arr.flags.writeable:
            arr *= 3.0
            arr += 1.0
        return True, None
    if op == 'SetNFFT':
        return call_guard(setattr, p, 'NFFT', nfft_py(arg))
    if op == 'SetSampling':
        return call_guard(setattr, p, 'sampling', _num(arg / float(SAMP_UNIT)))
    if op == 'SetSides':
        return call_guard(setattr, p, 'sides', arg)
    if op == 'SetWindow':
        return call_guard(setattr, p, 'window', arg)
    if op == 'SetLag':
        return call_guard(setattr, p, 'lag', _num(arg))
    if op == 'SetDetrend':
        return call_guard(setattr, p, 'detrend', None if arg == 'none' else arg)
    if op == 'SetScale':
        return call_guard(setattr, p, 'scale_by_freq', arg)
    if op == 'SetArOrder':
        return call_guard(setattr, p, 'ar_order', arg)       # orders are type-checked by some estimators: python ints only
    if op == 'SetMaOrder':
        return call_guard(setattr, p, 'ma_order', arg)
    if op == 'Call':
        return call_guard(p.__call__)
    if op == 'ReadPsd':
        return call_guard(getattr, p, 'psd')
    if op == 'GetConverted':
        return call_guard(p.get_converted_psd, arg)
    raise KeyError(op)


# ------------------------------------------------------------------ references
class RefCache(object):
    """PSDs of freshly constructed real objects, per configuration."""

    def __init__(self, cls):
        self.cls = cls
        self.c = {}

    def unscaled(self, at, layout):
        key = (at['data'], at['dt'], at['nfft'], at['samp'], at['detrend'], at['window'], at['lag'], at['ar'], at['ma'], layout)
        if key not in self.c:
            ref = self.cls.ctor(at, scale=False)
            v = np.array(ref.psd, dtype=float if not np.iscomplexobj(ref.psd) else complex)
            if ref.sides != layout:
                ref.sides = layout
                v = np.array(ref.psd)
            self.c[key] = v
        return self.c[key]


def same(a, b, rtol=1e-9):
    a = np.asarray(a)
    b = np.asarray(b)
    if a.shape != b.shape or a.size == 0:
        return False
    if not (np.all(np.isfinite(a)) and np.all(np.isfinite(b))):
        return False
    s = float(np.max(np.abs(b)))
    return float(np.max(np.abs(a - b))) <= rtol * max(s, 1e-300)


def identify(vec, at, refs, history=()):
    """Which estimate is `vec`?  -> dict(valid, fresh, layout, scaled, len, staleof)

    fresh  : vec is the estimate of a fresh object with attributes `at` (up to the
             number of 2*pi/df scalings, reported separately)
    layout : the layout in which it matches (normally at['sides'])
    scaled : number of 2*pi/df factors (0, 1, 2) or 9 when unknown
    """
    out = {'valid': True, 'fresh': False, 'layout': 'unknown', 'scaled': 9, 'len': int(len(vec)), 'staleof': -1}
    factor = 2 * math.pi / ((at['samp'] / float(SAMP_UNIT)) / at['nfft'])
    layouts = [at['sides']] + [s for s in ('onesided', 'twosided', 'centerdc')
                               if s != at['sides'] and not (s == 'onesided' and at['dt'] == 'complex')]
    for lay in layouts:
        ok, u = call_guard(refs.unscaled, at, lay)
        if not ok:
            continue
        for m in (0, 1, 2):
            if same(vec, u * factor ** m):
                out.update(fresh=True, layout=lay, scaled=m)
                return out
    # not the current estimate: is it the estimate of an earlier configuration?
    for k in range(len(history) - 1, -1, -1):
        h = history[k]
        hf = 2 * math.pi / ((h['samp'] / float(SAMP_UNIT)) / h['nfft'])
        for lay in layouts:
            ok, u = call_guard(refs.unscaled, h, lay)
            if not ok:
                continue
            for m in (0, 1, 2):
                if same(vec, u * hf ** m):
                    out.update(layout=lay, scaled=m, staleof=k)
                    return out
    return out


def clone(p):
    return copy.deepcopy(p)
