"""Carrier.tla binding: replay every (token, carrier, level, profile) state TLC enumerates - the record is built in that
carrier, handed to the real function, and the result compared with the result for the same values carried as float64."""
import os

import numpy as np

from . import core, tlc
from .session import _flatten, same

LEVELS = (1, 100, 127, 255, 30000, 65000, 16000000, 2000000000)
N = 40


def record(level, profile, n=N):
    """the integer-valued record of a profile (float64): a tone in noise, |sample| <= level"""
    r = np.random.RandomState(977)
    u = 0.6 * np.cos(0.9 * np.arange(n) + 0.3) + 0.4 * (2 * r.rand(n) - 1)
    u = np.clip(u, -1, 1)
    if profile == 'real':
        return u * level + 0.123
    if profile == 'signed':
        v = np.round(u * level)
    else:
        v = np.round((u + 1) / 2 * level)
    return v.astype(float)


def carry(values, carrier):
    if carrier == 'list':
        return [int(v) for v in values]
    if carrier == 'list-float':
        return [float(v) for v in values]
    if carrier == 'readonly':
        out = values.copy()
        out.setflags(write=False)
        return out
    if carrier == 'big-endian':
        return values.astype('>f8')
    if carrier == 'negative-stride':
        return values[::-1].copy()[::-1]
    if carrier == 'column-of-2d':
        return np.asfortranarray(np.stack([values, 7 - values * 3], axis=1))[:, 0]
    if carrier == 'longdouble':
        return values.astype(np.longdouble)
    if carrier == 'masked':
        return np.ma.array(values)
    out = values.astype(getattr(np, carrier))
    if not np.all(out.astype(float) == values):
        raise core.MachineryError('record is not exactly representable in %s although Carrier.tla admits it' % carrier)
    return out


def _ns():
    import warnings
    warnings.simplefilter('ignore')
    import spectrum as sp
    from spectrum import linear_prediction as lp
    from spectrum.eigenfre import eigen
    return {'sp': sp, 'np': np, 'lp': lp, 'eigen': eigen}


def _eval(ex, ns, X):
    ns = dict(ns, X=X)
    try:
        return _flatten(eval(ex, ns))
    except Exception as e:
        return e


def run_carrier(chk, prop, exprs, part='carrier'):
    os.makedirs(tlc.WORK, exist_ok=True)
    cfg = tlc._cfg_text(constants={'NTokens': len(exprs), 'Levels': set(LEVELS), 'Promote': True}, invariants=['CarrierFree', 'MechanismIsExact'])
    res = chk.tlc('Carrier', cfg, part=part, workers=2)
    try:
        calls = [st['call'] for st in res.states() if st['phase'] == 'called']
    finally:
        tlc.cleanup(res.workdir)
    seen = {c['carrier'] for c in calls}
    if len(seen) < 17:
        raise core.MachineryError('Carrier.tla enumerated only the carriers %s' % sorted(seen))
    if chk.tier == 'quick':
        # the largest admissible level of each carrier/profile (where wrap-around shows first) and the smallest one
        calls = [c for c in calls if c['maximal'] or c['level'] == 100]
        # (the memory layouts: half of them per token, rotating)
        calls = [c for c in calls if c['profile'] != 'real' or ((c['token'] + sum(map(ord, c['carrier']))) % 2 == 0) or len(exprs) <= 3]
    calls.sort(key=lambda c: (c['token'], c['carrier'], c['level'], c['profile']))
    ns = _ns()
    refs = {}
    for c in calls:
        ex = exprs[c['token'] - 1]
        vals = record(c['level'], c['profile'])
        key = (c['token'], c['level'], c['profile'])
        if key not in refs:
            refs[key] = _eval(ex, ns, vals.copy())
        ref = refs[key]
        got = _eval(ex, ns, carry(vals, c['carrier']))
        chk.evaluations += 1
        fn = ex.split('(')[0]
        case = {'token': ex, 'carrier': c['carrier'], 'level': c['level'], 'profile': c['profile']}
        if isinstance(ref, Exception):
            # the function refuses these values as float64: it must not silently accept them in another carrier
            # (nothing to compare with; counted, not judged)
            chk.skip('carrier: float64 reference raises', 1)
            continue
        if isinstance(got, Exception) and c['carrier'] in ('longdouble', 'masked', 'big-endian'):
            # an extended-precision, masked or byte-swapped array refused loudly: no property promises these are accepted; what is
            # required is that an accepted one gives the result of the values it holds
            chk.skip('carrier: %s refused' % c['carrier'], 1)
            continue
        if isinstance(got, Exception):
            chk.violation('%s:carrier:%s:%s:raises' % (prop, fn, c['carrier']),
                          '`%s` raises %r for a record (|x| <= %d, %s) carried as %s; the same values as a plain float64 array are accepted'
                          % (ex, got, c['level'], c['profile'], c['carrier']), case)
            continue
        rtol = 2e-3 if c['carrier'] == 'float32' else 1e-9
        if not same(got, ref, rtol=rtol):
            chk.violation('%s:carrier:%s:%s' % (prop, fn, c['carrier']),
                          '`%s` on a record (|x| <= %d, %s) carried as %s differs from the result for the same values as a plain float64 array'
                          % (ex, c['level'], c['profile'], c['carrier']), case)
    chk.replayed += len(calls)
    chk.count(part, 'calls', len(calls))
    chk.count(part, 'tokens', len(exprs))


TOKENS = {
    'C01': ["sp.speriodogram(X, NFFT=64, detrend=False, sampling=1., scale_by_freq=False, window='hamming')",
            "sp.speriodogram(X, NFFT=64, detrend=True, sampling=1., scale_by_freq=False, window='rectangular')",
            "sp.Periodogram(X, NFFT=64, window='hann', scale_by_freq=False).psd",
            "sp.CORRELOGRAMPSD(X, lag=12, window='rectangular', norm='biased', NFFT=64)"],
    'C03': ["sp.%s.psd" % c for c in (
            "Periodogram(X, NFFT=64)", "pcorrelogram(X, lag=10, NFFT=64)", "pburg(X, 4, NFFT=64)", "pyule(X, 4, NFFT=64)",
            "pcovar(X, 4, NFFT=64)", "pmodcovar(X, 4, NFFT=64)", "parma(X, 3, 3, 12, NFFT=64)", "pma(X, 3, 10, NFFT=64)",
            "pminvar(X, 4, NFFT=64)", "pmusic(X, 8, NSIG=2, NFFT=64)", "pev(X, 8, NSIG=2, NFFT=64)",
            "MultiTapering(X, NW=2.5, k=4, NFFT=64, method='adapt')")]
           + ["sp.WelchPeriodogram(X, NFFT=16)[0][0]", "sp.DaniellPeriodogram(X, 3, NFFT=64)[0]"],
    'C09': ["sp.CORRELATION(X, maxlags=8, norm='biased')", "sp.CORRELATION(X, maxlags=8, norm='unbiased')",
            "sp.CORRELATION(X, maxlags=8, norm=None)", "sp.CORRELATION(X, maxlags=8, norm='coeff')",
            "sp.CORRELATION(X, X[::-1], maxlags=8, norm='biased')",
            # mixed carriers: an integer record against a shorter record of non-integer floats (and the reverse)
            "sp.CORRELATION(X, np.array([0.5, 1.25, -0.75]), maxlags=5, norm=None)", "sp.CORRELATION(np.array([0.5, 1.25, -0.75]), X, maxlags=5, norm=None)",
            "sp.xcorr(X, maxlags=8, norm='biased')[0]", "sp.xcorr(X, X[::-1], maxlags=8, norm='coeff')[0]", "sp.xcorr(X, maxlags=8, norm=None)[0]"]
           + ["np.asarray(sp.corrmtx(X, 3, '%s'))" % m for m in ('autocorrelation', 'prewindowed', 'postwindowed', 'covariance', 'modified')]
           + ["(lambda C: np.dot(C.conj().T, C))(np.asarray(sp.corrmtx(X, 3, '%s')))" % m for m in ('covariance', 'modified')],
    'C12': ["sp.aryule(X, 4, norm='biased')", "sp.aryule(X, 1, norm='unbiased')", "np.asarray(sp.pyule(X, 4, norm='biased', NFFT=16).ar)"],
    'C13': ["sp.arburg(X, 4)", "sp.arburg(X, 10, 'AIC')", "np.asarray(sp.pburg(X, 4, NFFT=16).reflection)"],
    'C14': ["sp.arcovar(X, 4)", "sp.arcovar_marple(X, 4)[:2]", "sp.modcovar(X, 4)", "sp.modcovar_marple(X, 4)[:2]",
            "np.asarray(sp.pcovar(X, 3, NFFT=16).ar)", "np.asarray(sp.pmodcovar(X, 3, NFFT=16).ar)"],
    'C15': ["sp.arma_estimate(X, 3, 3, 12)", "sp.ma(X, 3, 12)", "np.asarray(sp.pma(X, 3, 12, NFFT=16).ma)", "sp.parma(X, 3, 3, 12, NFFT=16).psd"],
    'C16': ["sp.minvar(X, 4, NFFT=32)[0]", "sp.pminvar(X, 4, NFFT=32).psd"],
    'C17': ["eigen(X, 8, NSIG=2, method='music', NFFT=32)[0]", "eigen(X, 8, NSIG=2, method='ev', NFFT=32)[0]"],
    'C19': ["sp.pmtm(X, NW=2.5, k=4, NFFT=64, method='adapt')[1]", "sp.pmtm(X, NW=2.5, k=4, NFFT=64, method='eigen')[0]",
            "sp.pmtm(X, NW=2.5, k=1, NFFT=64, method='adapt')[1]",
            "sp.MultiTapering(X, NW=2.5, k=4, NFFT=64, method='adapt').psd", "sp.MultiTapering(X, NW=2.5, k=4, NFFT=64, method='unity').psd"],
}


def run_for(chk, prop):
    run_carrier(chk, prop, TOKENS[prop])
