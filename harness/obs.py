"""Observation events: write a batch, let TLC validate it against an Obs*.tla module."""
import json
import os

from . import core, tlc, tlaval

QCAP = 2000000000   # quantised values are capped to fit TLC's 32-bit integers


def q(x, unit=1e-9):
    """quantise a non-negative residual to an integer number of `unit`s (capped)."""
    import math
    if x is None or x != x or math.isinf(x):
        return QCAP
    r = abs(x) / unit
    if r != r or r >= QCAP:
        return QCAP
    return int(round(r))


def qs(x, unit=1e-6):
    """signed quantisation"""
    import math
    if x != x or math.isinf(x):
        return QCAP
    r = x / unit
    if r != r:
        return QCAP
    if abs(r) >= QCAP:
        return QCAP if r > 0 else -QCAP
    return int(round(r))


class Batch(object):
    def __init__(self, module):
        self.module = module
        self.events = []
        self.cases = []

    def add(self, ev, case=None):
        """ev: dict of str -> int | bool | str | list thereof (no floats!)."""
        for k, v in ev.items():
            if isinstance(v, float):
                raise core.MachineryError('float in observation event field %s' % k)
        self.events.append(ev)
        self.cases.append(case if case is not None else ev)


def validate(chk, batch, part, sigfun, whatfun=None, chunk=20000):
    """Run TLC over the batch.  For each event with failed clauses call
    chk.violation(sigfun(ev, clause), ...).  Returns number of failing events."""
    nfail = 0
    for start in range(0, len(batch.events), chunk):
        evs = batch.events[start:start + chunk]
        cases = batch.cases[start:start + chunk]
        if not evs:
            continue
        text = ''.join(json.dumps(e, sort_keys=True) + '\n' for e in evs)
        res = None
        try:
            res = _run(chk, batch.module, text, part)
            last = 0
            failing = []
            for st in res.states():
                last = max(last, st['l'])
                if st['fails']:
                    failing.append((st['l'] - 1, st['fails']))
            if last != len(evs) + 1:
                raise core.MachineryError('ObsTrace consumed %s of %d events (module %s)'
                                          % (last - 1, len(evs), batch.module))
            for idx, clauses in sorted(failing):
                ev = evs[idx - 1]
                nfail += 1
                for cl in sorted(clauses):
                    what = whatfun(ev, cl) if whatfun else 'event %s fails clause %s' % (ev.get('ev'), cl)
                    chk.violation(sigfun(ev, cl), what, {'event': ev, 'clause': cl, 'case': cases[idx - 1]})
            chk.events += len(evs)
            chk.count(part, 'events', len(evs))
        finally:
            if res is not None:
                tlc.cleanup(res.workdir)
    return nfail


def _run(chk, module, text, part):
    cfg = tlc._cfg_text()
    d_env = {}
    # the trace file lives inside the TLC work dir: written via extra_files
    res = chk.tlc(module, cfg, part=part, workers=1, extra_files={'events.ndjson': text},
                  env={'TRACE_FILE': 'events.ndjson'}, tag='%s-%s' % (chk.prop, module))
    return res
