"""C17 - MUSIC / EV resolve exact sinusoids and expose the data-matrix spectrum.

EigenArgs.tla: the argument-validation decision table (NSIG / threshold / criterion,
ranges, method) and the forward-backward data matrix as an index map, both enumerated by
TLC and replayed (eigen, music, ev, pmusic, pev; singular values of the matrix built from
the index map).  Peak clause on noiseless on-grid exponentials: ObsC17.tla.
"""
import numpy as np

from .. import core, tlc, obs, zoo
from ..kern_util import call_guard, np_int

P_SPEC = 4


def replay_state(chk, st, rng):
    from spectrum.eigenfre import eigen, music, ev
    from spectrum import pmusic, pev
    P = P_SPEC
    if st['kind'] == 'args':
        N = 24
        x = np.exp(2j * np.pi * 0.2 * np.arange(N)) + 0.5 * np.exp(2j * np.pi * 0.31 * np.arange(N)) + 0.1 * (rng.randn(N) + 1j * rng.randn(N))
        ns = {'none': None, 'negative': -1, 'zero': 0, 'valid': 2, 'equalP': P, 'aboveP': P + 3}[st['nsig']]
        # the same integer as a python int or a numpy integer (np.arange / shape arithmetic hand those out)
        cnta = getattr(chk, '_c17_args', 0)
        chk._c17_args = cnta + 1
        if ns is not None and cnta % 2:
            ns = np.int64(ns)
        # (the documented meaning: singular values larger than threshold x the smallest one; 1 is the smallest sensible value -
        # every singular value but the smallest is signal)
        th = None if st['thr'] == 'none' else [2.0, 1, 50.0, 1.0][(cnta // 2) % 4]
        me = st['method'] if st['method'] != 'other' else 'dummy'
        case = {'NSIG': ns, 'threshold': th, 'criteria': st['crit'], 'method': me, 'accept': st['accept']}
        calls = [('eigen', lambda: eigen(x, P, NSIG=ns, method=me, threshold=th, NFFT=32, criteria=st['crit']))]
        if me in ('music', 'ev'):
            fun = music if me == 'music' else ev
            cls = pmusic if me == 'music' else pev
            calls.append((me, lambda: fun(x, P, NSIG=ns, NFFT=32, threshold=th, criteria=st['crit'])))
            calls.append(('p' + me, lambda: cls(x, P, NSIG=ns, NFFT=32, threshold=th, criteria=st['crit']).psd))
        for cname, thunk in calls:
            ok, res = call_guard(thunk)
            chk.evaluations += 1
            if st['accept'] and ok:
                # noisy data: every singular value is positive, at least one noise vector remains, the pseudo-spectrum is finite
                vals = np.asarray(res[0] if isinstance(res, tuple) else res, dtype=float)
                if not np.all(np.isfinite(vals)) or not np.all(vals > 0):
                    chk.violation('C17:args:%s:not-finite:%s:%s' % (cname, st['nsig'], st['thr']), '%s returns a pseudo-spectrum that is not finite and positive for %s' % (cname, case), case)
            if st['accept'] and not ok:
                chk.violation('C17:args:%s:rejects-valid:%s:%s' % (cname, st['nsig'], st['thr']), '%s rejects valid arguments %s: %r' % (cname, case, res), case)
            if not st['accept'] and ok:
                chk.violation('C17:args:%s:accepts-invalid:%s:%s:%s' % (cname, st['nsig'], st['thr'], st['method']),
                              '%s accepts invalid arguments %s' % (cname, case), case)
        # accepted with an explicit dimension: the criterion / its name must not matter
        if st['accept'] and st['rule'] == 'explicit':
            ok1, a = call_guard(lambda: eigen(x, P, NSIG=ns, method=me, NFFT=32, criteria='aic')[0])
            ok2, b = call_guard(lambda: eigen(x, P, NSIG=ns, method=me, NFFT=32, criteria='mdl')[0])
            if ok1 and ok2 and not np.allclose(a, b, rtol=1e-12, atol=0, equal_nan=True):
                chk.violation('C17:args:explicit-NSIG-not-exclusive', 'the criterion changes the result although NSIG is explicit', case)
        chk.count('eigen-args', 'accept' if st['accept'] else 'reject')
    else:
        N = st['N']
        for cplx in (False, True):
            x = rng.randint(-5, 6, N).astype(float)
            if cplx:
                x = x + 1j * rng.randint(-5, 6, N)
            x[0] += 1
            FB = np.array([[np.conj(x[e[0] - 1]) if e[1] else x[e[0] - 1] for e in row] for row in st['fb']])
            sv = np.linalg.svd(FB, compute_uv=False)
            ok, res = call_guard(lambda: eigen(x.astype(complex), P, NSIG=1, NFFT=16, method='music'))
            chk.evaluations += 1
            case = {'x': x, 'P': P, 'expect_singular_values': sv}
            if not ok:
                chk.violation('C17:fbmatrix:raises', 'eigen raises %r' % (res,), case)
                continue
            S = np.asarray(res[1])
            if S.shape != sv.shape or np.max(np.abs(S - sv)) > 1e-9 * max(1.0, sv[0]):
                chk.violation('C17:fbmatrix:singular-values:%s' % ('complex' if cplx else 'real'),
                              'returned singular values %s are not those of the forward-backward data matrix %s' % (S.tolist(), sv.tolist()),
                              dict(case, observed=S))
        chk.count('fb-matrix', 'replayed')
        if N == 2 * P + 1:
            chk.sample('fb-index-matrix', {'N': N, 'P': P, 'fb': st['fb']}, 1)
    chk.replayed += 1


def local_maxima(p):
    """indices of circular local maxima, largest first (+inf counts as a maximum)"""
    n = len(p)
    q = np.where(np.isfinite(p), p, np.inf)
    idx = [i for i in range(n) if q[i] >= q[(i - 1) % n] and q[i] >= q[(i + 1) % n] and (q[i] > q[(i - 1) % n] or q[i] > q[(i + 1) % n] or np.isinf(q[i]))]
    idx.sort(key=lambda i: -q[i])
    return idx


def obs_events(chk):
    from spectrum import pmusic, pev
    from spectrum.eigenfre import eigen
    rng = np.random.RandomState(1700 + chk.seed)
    batch = obs.Batch('ObsC17')
    reps = 20 if chk.tier == 'quick' else 200
    # boundaries first: smallest admissible order P = K+1, shortest record N = 2P, longest N = 128 (more than the 100
    # rows the routine keeps), odd and even NFFT, real and complex data; then random configurations
    grid = []
    for K in (1, 2, 3, 4):
        for P in (K + 1, K + 2, 16):
            for N in (2 * P, 128):
                grid.append((K, P, N, 101 if (K + P + N) % 2 else 64, K % 2 == 0 and P != 16))
    if chk.tier == 'quick':
        grid = [g for i, g in enumerate(grid) if i % 2 == chk.seed % 2 or g[1] == g[0] + 1]
    # long transforms: past 4096 (the library's default NFFT) and 8192; the thorough tier also past 16384
    grid += [(2, 6, 64, 4099, False), (3, 8, 100, 8192, False), (2, 5, 40, 5001, True)] + ([] if chk.tier == 'quick' else [(2, 4, 48, 16411, False), (4, 9, 128, 8193, True)])
    for rep in range(reps + len(grid)):
        if rep < len(grid):
            K, P, N, nfft, real = grid[rep]
        else:
            K = int(rng.randint(1, 5))
            real = bool(rep % 4 == 3)
            if real:
                K = 2 * max(1, K // 2)
            P = int(rng.randint(K + 1, 17))
            N = int(rng.randint(2 * P, 129))
            nfft = int(rng.choice([64, 96, 128, 101]))
        # distinct on-grid frequencies, at least 3 bins apart
        while True:
            if real:
                bins = sorted(rng.choice(np.arange(4, nfft // 2 - 4), K // 2, replace=False))
            else:
                bins = sorted(rng.choice(np.arange(-nfft // 2 + 1, nfft // 2), K, replace=False))
            allb = sorted(set(list(bins) + ([-b for b in bins] if real else [])))
            if all(min((a - b) % nfft, (b - a) % nfft) >= 3 for i, a in enumerate(allb) for b in allb[i + 1:]):
                break
        n = np.arange(N)
        x = np.zeros(N, dtype=float if real else complex)
        for b in bins:
            amp = rng.uniform(0.5, 2.0)
            ph = rng.uniform(0, 2 * np.pi)
            x = x + (amp * np.cos(2 * np.pi * b * n / nfft + ph) if real else amp * np.exp(1j * (2 * np.pi * b * n / nfft + ph)))
        for name, cls in (('pmusic', pmusic), ('pev', pev)):
            ev = {'ev': 'peaks', 'cls': name, 'real': real, 'K': K, 'P': P, 'N': N, 'nfft': nfft}
            ok, obj = call_guard(lambda: cls(x.copy(), P, NSIG=K, NFFT=nfft))
            if ok:
                ok, psd = call_guard(lambda: np.array(obj.psd, dtype=float))
            ev['raised'] = not ok
            if ok:
                f = np.array(obj.frequencies())
                fb = np.round(f * obj.NFFT / obj.sampling).astype(int)
                if real:
                    # one-sided: K/2 peaks at |bins|
                    want = sorted(bins)
                    kk = K // 2
                    lm = [i for i in range(len(psd)) if (i == 0 or psd[i] >= psd[i - 1]) and (i == len(psd) - 1 or psd[i] >= psd[i + 1])
                          and not (0 < i < len(psd) - 1 and psd[i] == psd[i - 1] == psd[i + 1])]
                    lm.sort(key=lambda i: -(psd[i] if np.isfinite(psd[i]) else np.inf))
                else:
                    want = sorted(b % nfft for b in bins)
                    kk = K
                    lm = local_maxima(psd)
                ev['K'] = kk
                ev['peakbins'] = [int(fb[i]) for i in lm[:kk]]
                ev['truebins'] = [int(b) for b in want]
                pos = ~np.isnan(psd) & (psd > 0)
                ev['positive'] = bool(np.all(pos))
                S = np.asarray(obj.eigenvalues, dtype=float)
                NP = min(N - P, 100)
                xc = x.astype(complex)
                FB = np.zeros((2 * NP, P), dtype=complex)
                for i in range(NP):
                    for k in range(P):
                        FB[i, k] = xc[i - k + P - 1]
                        FB[i + NP, k] = np.conj(xc[i + k + 1])
                sv = np.linalg.svd(FB, compute_uv=False)
                ev['sv_dev'] = obs.q(np.max(np.abs(S - sv)) / sv[0]) if S.shape == sv.shape else obs.QCAP
                ev['sv_sorted'] = bool(np.all(np.diff(S) <= 1e-12 * S[0]))
                ev['rank'] = int(np.sum(S > 1e-8 * S[0]))
                ev['Ksig'] = K
                ev['rank_expected'] = K
                ev['K'] = kk
                ev['rank'] = ev['rank'] if not real else ev['rank'] // 2 if ev['rank'] == K else -1
            else:
                ev.update(peakbins=[], truebins=[], positive=False, sv_dev=0, sv_sorted=False, rank=-1)
                ev['exc'] = repr(obj)[:100]
            batch.add(ev, {'cls': name, 'real': real, 'K': K, 'P': P, 'N': N, 'nfft': nfft, 'bins': [int(b) for b in bins], 'seed': chk.seed, 'rep': rep})
    obs.validate(chk, batch, 'obs-peaks', lambda ev, cl: 'C17:OBS:%s:%s:%s' % (ev['cls'], 'real' if ev['real'] else 'complex', cl),
                 lambda ev, cl: '%s K=%s P=%d N=%d NFFT=%d: clause "%s" fails: %s' % (ev['cls'], ev['K'], ev['P'], ev['N'], ev['nfft'], cl, ev))
    chk.sample('obs-event', batch.events[0], 1)


def replay_music(chk, st, rng):
    """Music.tla: exact denominators of the MUSIC pseudo-spectrum for noiseless exponentials on the 4-point grid."""
    from spectrum.eigenfre import eigen
    from spectrum import pmusic
    from .. import material as M
    P, tones = st['P'], sorted(st['tones'])
    K = len(tones)
    D = [float(M.rat(v)) for v in st['den']]            # D[j] = denominator at code bin j (before the re-ordering)
    for N in sorted({2 * P + 1, 12, 17}):
        n = np.arange(N)
        amps = [(1.0 + 0j), (0.5 - 1.5j), (2.0 + 1j)][:K] if K <= 3 else None
        x = sum(a * (1j) ** ((m * n) % 4) for a, m in zip(amps, tones))
        for c in (1, 2, 3):
            nfft = 4 * c
            if nfft < P:
                continue
            case = {'P': P, 'tones': tones, 'N': N, 'NFFT': nfft, 'expect_denominators_by_bin': {m: D[(4 - m) % 4] for m in range(4)}}
            ok, res = call_guard(eigen, x.copy(), np_int(P, N), NSIG=np_int(K, N + c), method='music', NFFT=np_int(nfft, c))
            chk.evaluations += 1
            if not ok:
                chk.violation('C17:music-exact:raises', 'eigen(music) raises %r on %d noiseless on-grid exponentials, P=%d' % (res, K, P), case)
                continue
            psd = np.asarray(res[0], dtype=float)
            if len(psd) != nfft:
                chk.violation('C17:music-exact:length', 'pseudo-spectrum has %d values for NFFT=%d' % (len(psd), nfft), case)
                continue
            with np.errstate(all='ignore'):
                den = 1.0 / psd
            half = nfft // 2
            bad = None
            # C17 pins where the pseudo-spectrum peaks and that it is positive, not its normalisation: the four
            # denominators are compared after dividing each set by its largest member
            got4 = np.array([den[half + c * (m if m < 2 else m - 4)] for m in range(4)])   # centred bins -2..1
            exp4 = np.array([D[(4 - m) % 4] for m in range(4)])
            if not np.all(np.isfinite(got4)) or np.max(got4) <= 0:
                bad, exp = 'denominators %r' % (got4.tolist(),), 1.0
            else:
                got4, exp4n = got4 / np.max(got4), exp4 / np.max(exp4)
                for m in range(4):
                    got, exp = got4[m], exp4n[m]
                    if abs(got - exp) > 1e-7:
                        bad = 'bin %d/4: normalised 1/pseudo-spectrum = %r, exact value %r' % (m, got, exp)
                        break
            if bad:
                chk.violation('C17:music-exact:%s' % ('at-a-tone' if exp == 0 else 'off-tone'),
                              'eigen(x, P=%d, NSIG=%d, music, NFFT=%d) for tones at bins %s of the 4-point grid: %s' % (P, K, nfft, tones, bad), case)
            # the class reports the same values on its own axis (two-sided: bin k at entry k)
            ok, obj = call_guard(lambda: pmusic(x.copy(), P, NSIG=K, NFFT=nfft, scale_by_freq=False))
            if ok:
                ok, v = call_guard(lambda: np.array(obj.psd, dtype=float))
            if not ok or len(v) != nfft:
                chk.violation('C17:music-exact:class-raises-or-length', 'pmusic raises or returns a wrong length', case)
            else:
                with np.errstate(all='ignore'):
                    dv = 1.0 / v
                dv = dv / np.max(dv[::c]) if np.all(np.isfinite(dv[::c])) and np.max(dv[::c]) > 0 else dv * np.nan
                for m in range(4):
                    exp = D[(4 - m) % 4] / max(D)
                    if not np.isfinite(dv[c * m]) or abs(dv[c * m] - exp) > 1e-7:
                        chk.violation('C17:music-exact:class:%s' % ('at-a-tone' if exp == 0 else 'off-tone'),
                                      'pmusic(P=%d, NSIG=%d, NFFT=%d), tones %s: entry %d has 1/psd = %r, exact value %r' % (P, K, nfft, tones, c * m, dv[c * m], exp), case)
                        break
    chk.replayed += 1
    chk.count('music-exact', 'replayed')
    if P == 3 and K == 2:
        chk.sample('music-exact', {'P': P, 'tones': tones, 'den': st['den']}, 1)


def run(chk):
    rng = np.random.RandomState(1750 + chk.seed)
    core.run_jobs(chk, [{'module': 'Music', 'part': 'music-exact',
                         'cfg': tlc._cfg_text(constants={'MaxP': 4}, invariants=['NoOverflow', 'PeaksExactlyAtTones', 'PositiveElsewhere', 'AtMostP', 'GridSum']),
                         'replay': lambda st: replay_music(chk, st, rng)}])
    cfg = tlc._cfg_text(constants={'P': P_SPEC, 'MaxN': 14 if chk.tier == 'quick' else 24},
                        invariants=['IndicesInRange', 'Structure', 'MutuallyExclusive'])
    core.run_jobs(chk, [{'module': 'EigenArgs', 'cfg': cfg, 'part': 'eigen-args-and-matrix', 'replay': lambda st: replay_state(chk, st, rng)}])
    obs_events(chk)
    from .. import session
    session.run_for(chk, 'C17')      # Session.tla: results do not depend on earlier calls
    from .. import quiet
    quiet.run_for(chk, 'C17')      # Quiet.tla: asking for diagnostics is not an argument
    from .. import units
    units.run_for(chk, 'C17')      # Units.tla: the unit the data are expressed in is not part of the data
    from .. import carrier
    carrier.run_for(chk, 'C17')      # Carrier.tla: a sample denotes its value whatever container carries it


def replay_case(chk, sig, case):
    run(chk)
