"""C10, second half: HERMTOEP, TOEPLITZ, CHOLESKY against Toeplitz.tla, GenToeplitz.tla, Cholesky.tla."""
import numpy as np

from .. import core, material as M, tlc
from ..kern_util import scale_for, call_guard, cmp_vec


def _arr(seq, cplx, force_complex=False):
    if cplx or force_complex:
        return np.array(M.cq_seq(seq), dtype=complex)
    return np.array(M.real_list(seq), dtype=float)


# ---------------------------------------------------------------- HERMTOEP
def _next_scale(chk):
    n = getattr(chk, '_c10t_scale', 0)
    chk._c10t_scale = n + 1
    return scale_for(n)


def replay_hermtoep(chk, st, cplx):
    from spectrum.toeplitz import HERMTOEP
    if st['status'] != 'pd' or M.has_ovf(st['x']) or len(st['A']) == 0:
        chk.skip('hermtoep-' + st['status'] if len(st['A']) else 'hermtoep-order0')
        return
    mode = 'complex' if cplx else 'real'
    r, z = st['r'], st['z']
    expx = np.array(M.cq_seq(st['x']), dtype=complex)
    zreal = all(M.cq_is_real(v) for v in z)
    paths = [('native', False, None), ('complex-dtype', True, None)]
    if zreal:
        # right-hand side given as integers / floats while the matrix may be complex
        paths += [('rhs-int-list', cplx, 'list'), ('rhs-int64', cplx, 'int64'), ('rhs-float64', cplx, 'float64')]
    for ename, fc, zkind in paths:
        if cplx and fc and zkind is None:
            continue
        T0 = float(M.rat(r[0][0]))
        T = _arr(r[1:], cplx, fc)
        Z = _arr(z, cplx, fc)
        if zkind == 'list':
            Z = [int(v) for v in M.real_list(z)]
        elif zkind:
            Z = np.array(M.real_list(z), dtype=zkind)
        case = {'kernel': 'HERMTOEP', 'T0': T0, 'T': T, 'Z': Z, 'expect_x': expx, 'complex': cplx}
        ok, res = call_guard(HERMTOEP, T0, T, Z)
        chk.evaluations += 1
        if not ok:
            chk.violation('HERMTOEP:raise-on-pd:%s:%s' % (mode, ename),
                          'HERMTOEP rejects a positive-definite system: %r' % (res,), case)
            continue
        bad = cmp_vec(res, expx, name='x')
        if bad:
            chk.violation('HERMTOEP:values:%s:%s' % (mode, ename),
                          'HERMTOEP returns x with T x != z (%s)' % bad, dict(case, observed=res))
        if ename == 'native':
            # homogeneity: (c T) x = c z has the same solution
            c = _next_scale(chk)
            ok, res = call_guard(HERMTOEP, T0 * c, T * c, Z * c)
            bad = ('raises %r' % (res,)) if not ok else cmp_vec(res, expx, name='x')
            if bad:
                chk.violation('HERMTOEP:scaled-system:%s' % mode, 'HERMTOEP on the system scaled by %g: %s' % (c, bad), dict(case, scale=c))
    chk.replayed += 1
    chk.count('hermtoep-' + mode, 'replayed')
    if len(st['A']) >= 2:
        chk.sample('hermtoep-' + mode, {'r': st['r'], 'z': st['z'], 'x': st['x']}, 1)


def part_hermtoep(chk, cplx, order, r0set, parts, zparts):
    cfg = tlc._cfg_text(spec='TSpec', constants={'MaxOrder': order, 'R0Set': set(r0set), 'Parts': '<- ' + parts,
                                                 'ZParts': '<- ' + zparts, 'Complex': cplx},
                        invariants=['Solves', 'ToeplitzEquation'])
    return {'module': 'MC_Toeplitz', 'cfg': cfg, 'part': 'hermtoep-' + ('complex' if cplx else 'real'),
            'replay': lambda st: replay_hermtoep(chk, st, cplx)}


# ---------------------------------------------------------------- TOEPLITZ
def _lex_positive(p):
    re, im = M.cq(p)
    return re > 0


def replay_toeplitz(chk, st, cplx):
    from spectrum.toeplitz import TOEPLITZ
    if len(st['A']) == 0 or st['status'] == 'ovf':
        chk.skip('toeplitz-order0-or-ovf')
        return
    mode = 'complex' if cplx else 'real'
    # admissible for the routine: every pivot has a (clearly) positive real part
    admissible = st['status'] == 'ok' and all(_lex_positive(p) for p in st['pivots'])
    clearly_refusable = any(M.cq(p)[0] < 0 for p in st['pivots'])
    t0 = M.cq_complex(st['t0']) if cplx else float(M.rat(st['t0'][0]))
    zreal = all(M.cq_is_real(v) for v in st['z'])
    paths = [('native', False, None), ('complex-dtype', True, None)]
    if zreal:
        paths += [('rhs-int-list', cplx, 'list'), ('rhs-int64', cplx, 'int64')]
    for ename, fc, zkind in paths:
        if cplx and fc and zkind is None:
            continue
        TC = _arr(st['tc'], cplx, fc)
        TR = _arr(st['tr'], cplx, fc)
        Z = _arr(st['z'], cplx, fc)
        if zkind == 'list':
            Z = [int(v) for v in M.real_list(st['z'])]
        elif zkind:
            Z = np.array(M.real_list(st['z']), dtype=zkind)
        T0 = complex(t0) if (cplx or fc) else t0
        case = {'kernel': 'TOEPLITZ', 'T0': T0, 'TC': TC, 'TR': TR, 'Z': Z, 'complex': cplx,
                'pivots': [M.cq(p) for p in st['pivots']]}
        ok, res = call_guard(TOEPLITZ, T0, TC, TR, Z)
        chk.evaluations += 1
        if not ok:
            if admissible:
                chk.violation('TOEPLITZ:raise-on-admissible:%s:%s' % (mode, ename),
                              'TOEPLITZ rejects a system whose pivots are all positive: %r' % (res,), case)
            else:
                chk.count('toeplitz-' + mode, 'legitimate-refusals')
            continue
        if st['status'] != 'ok' or M.has_ovf(st['x']):
            continue
        expx = np.array(M.cq_seq(st['x']), dtype=complex)
        bad = cmp_vec(res, expx, name='x')
        if bad:
            chk.violation('TOEPLITZ:values:%s:%s' % (mode, ename),
                          'TOEPLITZ returns x with T x != z (%s)' % bad, dict(case, observed=res, expect_x=expx))
        if ename == 'native' and admissible:
            c = _next_scale(chk)
            ok, res = call_guard(TOEPLITZ, T0 * c, TC * c, TR * c, Z * c)
            bad = ('raises %r' % (res,)) if not ok else cmp_vec(res, expx, name='x')
            if bad:
                chk.violation('TOEPLITZ:scaled-system:%s' % mode, 'TOEPLITZ on the system scaled by %g: %s' % (c, bad), dict(case, scale=c))
    chk.replayed += 1
    chk.count('toeplitz-' + mode, 'replayed')
    chk.count('toeplitz-' + mode, 'admissible' if admissible else 'not-admissible')
    if len(st['A']) >= 2 and admissible:
        chk.sample('toeplitz-' + mode, {'t0': st['t0'], 'tc': st['tc'], 'tr': st['tr'], 'z': st['z'], 'x': st['x']}, 1)


def part_toeplitz(chk, cplx, order, t0set, parts, zparts):
    # complex systems: the diagonal itself is complex (imaginary part 0 or 1)
    cfg = tlc._cfg_text(constants={'MaxOrder': order, 'T0Set': set(t0set), 'T0Im': {0, 1} if cplx else {0}, 'Parts': '<- ' + parts,
                                   'ZParts': '<- ' + zparts, 'Complex': cplx},
                        invariants=['Solves'])
    return {'module': 'MC_GenToeplitz', 'cfg': cfg, 'part': 'toeplitz-' + ('complex' if cplx else 'real'),
            'replay': lambda st: replay_toeplitz(chk, st, cplx)}


# ---------------------------------------------------------------- CHOLESKY
def replay_cholesky(chk, st, cplx, dim):
    from spectrum import CHOLESKY
    if st['mat'] == ():
        return
    mode = 'complex' if cplx else 'real'
    A = np.array([M.cq_seq(row) for row in st['mat']], dtype=complex)
    b = np.array(M.cq_seq(st['rhs']), dtype=complex)
    nl = dim * (dim + 1) // 2
    expx = np.array(M.cq_seq(st['pick'][nl:]), dtype=complex)
    variants = [('complex', A, b)]
    if not cplx:
        variants.append(('float', A.real.copy(), b.real.copy()))
    for method in ('scipy', 'numpy', 'numpy_solver'):
        for vname, Av, bv in variants:
            case = {'kernel': 'CHOLESKY', 'A': Av, 'b': bv, 'method': method, 'expect_x': expx}
            ok, res = call_guard(CHOLESKY, Av.copy(), bv.copy(), method)
            chk.evaluations += 1
            if not ok:
                chk.violation('CHOLESKY:raise-on-pd:%s:%s:%s' % (method, mode, vname),
                              'CHOLESKY(method=%s) rejects a Hermitian positive-definite system: %r' % (method, res), case)
                continue
            bad = cmp_vec(res, expx, name='x', tol=1e-7)
            if bad:
                chk.violation('CHOLESKY:values:%s:%s:%s' % (method, mode, vname),
                              'CHOLESKY(method=%s) returns x with A x != b (%s)' % (method, bad), dict(case, observed=res))
            if vname == 'complex':
                c = _next_scale(chk)
                ok, res = call_guard(CHOLESKY, Av * c, bv * c, method)
                bad = ('raises %r' % (res,)) if not ok else cmp_vec(res, expx, name='x', tol=1e-7)
                if bad:
                    chk.violation('CHOLESKY:scaled-system:%s:%s' % (method, mode), 'CHOLESKY on the system scaled by %g: %s' % (c, bad), dict(case, scale=c))
    chk.replayed += 1
    chk.count('cholesky-' + mode, 'replayed')
    chk.sample('cholesky-' + mode, {'A': st['mat'], 'b': st['rhs'], 'x': st['pick'][nl:]}, 1)


def part_cholesky(chk, cplx, dim, diag, parts, simulate=None):
    cfg = tlc._cfg_text(constants={'Dim': dim, 'DiagSet': set(diag), 'Parts': '<- ' + parts, 'Complex': cplx},
                        invariants=['Hermitian', 'PositiveMinors', 'SolvesSystem'])
    return {'module': 'MC_Cholesky', 'cfg': cfg, 'part': 'cholesky-' + ('complex' if cplx else 'real'),
            'replay': lambda st: replay_cholesky(chk, st, cplx, dim)}


def jobs(chk):
    quick = chk.tier == 'quick'
    js = [part_hermtoep(chk, False, 3, [2, 3], 'PartsQ' if not quick else 'PartsC', 'ZQ'),
          part_hermtoep(chk, True, 2, [2, 3], 'PartsC', 'ZC'),
          part_toeplitz(chk, False, 2 if quick else 3, [2, 3], 'PartsS', 'ZQ' if quick else 'ZC'),
          part_toeplitz(chk, True, 1 if quick else 2, [2], 'PartsS' if quick else 'Parts01', 'ZC'),
          part_cholesky(chk, False, 3 if not quick else 2, [1, 2], 'PartsS' if not quick else 'PartsQ'),
          part_cholesky(chk, True, 2, [1, 2], 'PartsS')]
    if not quick:
        js.append(part_cholesky(chk, True, 3, [1, 2], 'Parts01'))
    return js


def replay_case(chk, sig, case):
    """Re-run one recorded case; the expected value is the one recorded by the spec run."""
    from spectrum.toeplitz import HERMTOEP, TOEPLITZ
    from spectrum import CHOLESKY

    def c(v):
        return np.array([complex(e['re'], e['im']) if isinstance(e, dict) else e for e in v])
    if sig.startswith('HERMTOEP'):
        ok, res = call_guard(HERMTOEP, case['T0'], c(case['T']), c(case['Z']))
    elif sig.startswith('TOEPLITZ'):
        t0 = case['T0']
        t0 = complex(t0['re'], t0['im']) if isinstance(t0, dict) else t0
        ok, res = call_guard(TOEPLITZ, t0, c(case['TC']), c(case['TR']), c(case['Z']))
    else:
        A = np.array([c(row) for row in case['A']])
        ok, res = call_guard(CHOLESKY, A, c(case['b']), case['method'])
    chk.replayed += 1
    if not ok:
        if 'raise' in sig:
            chk.violation(sig, 'still raises: %r' % (res,), case)
        return
    if 'expect_x' in case:
        bad = cmp_vec(res, c(case['expect_x']), name='x', tol=1e-7)
        if bad:
            chk.violation(sig, bad, case)
