"""C07 - the psd attribute is never stale.

(M)   SpectrumImpl.tla (mechanism of psd.py) is model-checked: invariants Fresh, LayoutOK,
      ScaledOnce, LengthOK, DfOK, FlagSound and the refinement SpectrumImpl => SpectrumAbs,
      for histories of every length over the bounded alphabet.
(S->C) the labelled state graph of SpectrumImpl is walked on real objects: every edge of
      every reachable abstract state is executed once (object states are carried along a
      BFS tree by deep copies), followed by a read; predicted internal state is compared
      with the object's (MODEL-DRIFT is reported, it is not a verdict).
(C->S) every executed operation is recorded and the traces - graph edges and long random
      walks over all twelve estimator classes - are validated by TLC against the
      envelope (SpectrumTrace.tla reusing SpectrumAbs): only this decides VIOLATION.
"""
import json
import random

import numpy as np

from .. import core, tlc, tlaval
from .. import drive_obj as D
from ..kern_util import call_guard


# ---------------------------------------------------------------------------- model
def impl_consts(cls, dt, small):
    c = {
        'Kind': cls.kind, 'DT': dt, 'DataN': '<- DataN2',
        'NfftArgs': set(cls.nffts[:2] if small else cls.nffts) | ({33} if small and cls.name not in ('pmusic', 'pev') else set()),
        'Samplings': {D.S1, D.S1N} if small else {D.S1, D.S2, D.SH, D.S1N},
        'Windows': set(cls.windows) if cls.kind == 'fourier' else {'na'},
        'Lags': set(cls.lags[:1] if small and cls.kind == 'fourier' else cls.lags) if (cls.kind == 'fourier' or cls.name == 'parma') else {0},
        'Detrends': set(cls.detrends[:1] if small else cls.detrends) if cls.kind == 'fourier' else {'na'},
        'ArOrders': set(cls.ar) if cls.kind == 'parametric' else {0},
        'MaOrders': set(cls.ma[:1] if small else cls.ma) if cls.kind == 'parametric' else {0},
        'PreScale': 1, 'Bugs': '<- NoBugs',
    }
    if small and cls.name == 'parma':
        # the quick tier concentrates on what only this class has (ma order, lag)
        c.update({'NfftArgs': {0}, 'Samplings': {D.S1}, 'ArOrders': {2}, 'MaOrders': set(cls.ma)})
    if small and cls.name == 'MultiTapering':
        c.update({'NfftArgs': {0, 33}, 'Samplings': {D.S1, D.S1N}})
    return c


def impl_cfg(consts):
    # lags may be negative (Periodogram keeps lag=-1): negative numbers cannot appear in a cfg
    consts = dict(consts)
    extra = ''
    if any(isinstance(v, int) and v < 0 for v in consts['Lags']):
        extra = 'LagsDef == %s\n' % tlc.tla_expr(set(consts['Lags']))
        consts['Lags'] = '<- LagsDef'
    cfg = tlc._cfg_text(constants=consts,
                        invariants=['Fresh', 'LayoutOK', 'ScaledOnce', 'LengthOK', 'DfOK', 'FlagSound'],
                        properties=['Refines'])
    mod = ('---- MODULE MC_Impl ----\nEXTENDS SpectrumImpl\nNoBugs == {}\nDataN2 == <<%d, %d>>\n%s====\n'
           % (D.DATA_N[0], D.DATA_N[1], extra))
    return cfg, mod


def model_graph(chk, cls, dt, small):
    cfg, mod = impl_cfg(impl_consts(cls, dt, small))
    res = chk.tlc('MC_Impl', cfg, part='model-%s-%s' % (cls.name, dt), extra_files={'MC_Impl.tla': mod},
                  dump_dot=True, workers=4)
    try:
        nodes, init, edges = tlc.parse_dot(res.dump)
    finally:
        tlc.cleanup(res.workdir)
    return nodes, init, edges


# ---------------------------------------------------------------------------- recording
class Recorder(object):
    def __init__(self):
        self.events = []
        self.meta = []      # per event: info to rebuild a replay case
        self.tid = 0

    def new_trace(self):
        self.tid += 1
        return self.tid

    def add(self, ev, meta):
        ev['i'] = len(self.events) + 1
        self.events.append(ev)
        self.meta.append(meta)


def snap_event(tid, cls, p):
    return {'tid': tid, 'cls': cls.name, 'op': 'Snap', 'arg': 0, 'err': False,
            'post': D.attrs_of(p, cls), 'axis': D.axis_of(p), 'ret': {'valid': False}}


def op_event(tid, cls, p, op, arg, refs, history):
    """apply op to p and describe what happened"""
    ok, res = D.apply_op(p, op, arg)
    ev = {'tid': tid, 'cls': cls.name, 'op': op, 'arg': arg, 'err': not ok, 'ret': {'valid': False}}
    if not ok:
        ev['exc'] = repr(res)[:200]
    try:
        ev['post'] = D.attrs_of(p, cls)
        ev['axis'] = D.axis_of(p)
    except Exception as e:   # object left unusable
        ev['err'] = True
        ev['exc'] = 'projection failed: %r' % (e,)
        ev['post'] = {'broken': True}
        ev['axis'] = {'broken': True}
        return ev
    if op == 'GetConverted' and ok:
        vec = np.asarray(res)
        if res is None or vec.ndim != 1 or vec.dtype == object:
            ev['ret'] = {'valid': True, 'fresh': False, 'layout': 'unknown', 'scaled': 9, 'len': 0, 'staleof': -1}
        else:
            ev['ret'] = D.identify(vec, dict(ev['post'], sides=arg), refs, history)
    if op == 'ReadPsd' and ok:
        vec = np.asarray(res)
        if vec.ndim != 1 or vec.dtype == object:
            ev['ret'] = {'valid': True, 'fresh': False, 'layout': 'unknown', 'scaled': 9, 'len': int(vec.size), 'staleof': -1}
        else:
            ev['ret'] = D.identify(vec, ev['post'], refs, history)
            if np.iscomplexobj(vec) and np.max(np.abs(vec.imag)) > 0:
                ev['ret']['complexvalued'] = True
    return ev


def safe_clone(cls, p, root_at, ops):
    """a second object in the same state: a deep copy, or - when the object cannot be deep-copied (immutable shared
    helpers, locks, weak references) - a new object taken through the same operations"""
    try:
        return D.clone(p)
    except Exception:
        ok, q = call_guard(cls.ctor, root_at)
        if not ok:
            raise core.MachineryError('cannot rebuild %s from %r' % (cls.name, root_at))
        for op, arg in ops:
            D.apply_op(q, op, arg)
        return q


def consistent_refusal(cls, p, op, ev):
    """A computation that raises is not a C07 violation when a freshly constructed object with the same attribute
    values refuses too (e.g. an implementation that rejects NFFT < N instead of cropping the data): C07 relates the
    live object to the fresh one."""
    if not ev.get('err') or op not in ('Call', 'ReadPsd', 'GetConverted') or 'broken' in ev.get('post', {}):
        return False
    ok, _ = call_guard(lambda: np.array(cls.ctor(ev['post']).psd))
    return not ok


# ---------------------------------------------------------------------------- graph walk
def op_of_label(label):
    name, args = tlc.parse_label(label)
    if name == 'SetData':
        return name, {'data': args[0], 'N': D.DATA_N[args[0] - 1], 'dt': None}
    if name in ('Call', 'ReadPsd'):
        return name, 0
    return name, args[0]


def predicted_internal(st):
    return {'modified': st['modified'], 'rN': st['rN'], 'rS': st['rS'], 'nfft': st['nfft'],
            'sides': st['sides'], 'has_psd': st['cache']['valid']}


def real_internal(p):
    """the object's private mechanism state (informational: compared with the mechanism model, never a verdict);
    None when a refactoring renamed the private fields"""
    try:
        return _real_internal(p)
    except AttributeError:
        return None


def _real_internal(p):
    return {'modified': bool(p.modified), 'rN': int(p._range.N), 'rS': int(round(p._range.sampling * D.SAMP_UNIT)),
            'nfft': int(p.NFFT), 'sides': p.sides, 'has_psd': p._Spectrum__psd is not None}


def walk_graph(chk, cls, dt, nodes, init, edges, rec, refs, rng, max_edges):
    out = {}
    for s, d, lab in edges:
        out.setdefault(s, []).append((d, lab))
    rep = {}
    seen = set()
    hist = {}
    root = {}
    queue = []
    for nid in init:
        st = nodes[nid]
        at = {'dt': dt, 'data': st['data'], 'nfft': st['nfft'], 'samp': st['samp'], 'scale': st['scale'],
              'detrend': st['detrend'], 'window': st['window'], 'lag': st['lag'], 'ar': st['ar'], 'ma': st['ma']}
        ok, p = call_guard(cls.ctor, at)
        if not ok:
            raise core.MachineryError('cannot construct %s with %r: %r' % (cls.name, at, p))
        rep[nid] = p
        seen.add(nid)
        hist[nid] = []
        root[nid] = at
        queue.append(nid)
    part = 'graph-%s-%s' % (cls.name, dt)
    n_edges = sum(len(v) for v in out.values())
    keep = 1.0 if n_edges <= max_edges else max_edges / float(n_edges)
    drift = 0
    done = 0
    while queue:
        u = queue.pop(0)
        pu = rep[u]
        for v, lab in out.get(u, []):
            tree = v not in seen
            if not tree and rng.random() > keep:
                continue
            op, arg = op_of_label(lab)
            if op == 'SetData':
                arg['dt'] = dt
            if op == 'SetMaOrder' and cls.ma == (0,):
                continue      # the class has no MA order (the model keeps a dummy 0)
            o = safe_clone(cls, pu, root[u], [(x[0], x[1]) for x in hist[u]])
            tid = rec.new_trace()
            h = hist[u]
            meta = {'cls': cls.name, 'dt': dt, 'path': h, 'op': [op, arg]}
            rec.add(snap_event(tid, cls, o), meta)
            pre = D.attrs_of(o, cls)
            ev = op_event(tid, cls, o, op, arg, refs, [x[2] for x in h] + [pre])
            if consistent_refusal(cls, o, op, ev):
                chk.count(part, 'consistent-refusals')
                continue
            rec.add(ev, meta)
            done += 1
            # spec -> code: the mechanism model's prediction of the object's internals
            if not ev['err']:
                if predicted_internal(nodes[v]) != real_internal(o):
                    drift += 1
                    if drift <= 3:
                        chk.notes.append('MODEL-DRIFT %s %s after %s: model %r, object %r'
                                         % (cls.name, dt, lab, predicted_internal(nodes[v]), real_internal(o)))
            if op != 'ReadPsd' and not ev['err']:
                o2 = safe_clone(cls, o, root[u], [(x[0], x[1]) for x in hist[u]] + [(op, arg)])
                ev2 = op_event(tid, cls, o2, 'ReadPsd', 0, refs, [x[2] for x in h] + [pre, ev['post']])
                if consistent_refusal(cls, o2, 'ReadPsd', ev2):
                    chk.count(part, 'consistent-refusals')
                else:
                    rec.add(ev2, dict(meta, then='ReadPsd'))
            if tree:
                rep[v] = o
                seen.add(v)
                hist[v] = h + [(op, arg, ev.get('post'))]
                root[v] = root[u]
                queue.append(v)
        if u not in init:
            del rep[u]   # all outgoing edges done
    chk.count(part, 'edges-executed', done)
    chk.count(part, 'graph-nodes', len(nodes))
    chk.count(part, 'graph-edges', n_edges)
    chk.count(part, 'model-drift', drift)
    chk.replayed += done


# ---------------------------------------------------------------------------- random walks
def random_ops(cls, dt, rng):
    ops = []
    # data of both datatypes: a data assignment may change real <-> complex (incl. the same samples declared complex)
    for ddt in ('real', 'complex'):
        for d in D.TOKENS[ddt]:
            ops.append(('SetData', {'data': d, 'N': D.token_len(ddt, d), 'dt': ddt}))
    for x in cls.nffts:
        ops.append(('SetNFFT', x))
    for v in (D.S1, D.S2, D.SH, D.S1N):
        ops.append(('SetSampling', v))
    for s in ['onesided', 'twosided', 'centerdc', 'default']:
        ops.append(('SetSides', s))
    for b in (True, False):
        ops.append(('SetScale', b))
    if cls.kind == 'fourier':
        ops += [('SetWindow', w) for w in cls.windows]
        ops += [('SetLag', l) for l in cls.lags]
        ops += [('SetDetrend', x) for x in cls.detrends]
    if cls.kind == 'parametric':
        ops += [('SetArOrder', k) for k in cls.ar]
        if cls.ma != (0,):
            ops += [('SetMaOrder', k) for k in cls.ma]
        if cls.name == 'parma':
            ops += [('SetLag', l) for l in cls.lags]
    ops += [('Call', 0), ('ReadPsd', 0), ('ReadPsd', 0), ('ReadPsd', 0)]
    ops += [('GetConverted', s) for s in ('onesided', 'twosided', 'centerdc')]
    return ops


def initial_attrs(cls, dt, rng):
    N = D.DATA_N[0]
    return {'dt': dt, 'data': 1, 'nfft': D.resolve_nfft(rng.choice(cls.nffts), N), 'samp': rng.choice((D.S1, D.S2)),
            'scale': rng.choice((True, False)), 'detrend': rng.choice(cls.detrends), 'window': rng.choice(cls.windows),
            'lag': rng.choice(cls.lags), 'ar': rng.choice(cls.ar), 'ma': rng.choice(cls.ma)}


def directed_scripts(cls, dt):
    """short histories every class must survive (each found its way here through a seeded change)"""
    other = 'complex' if dt == 'real' else 'real'
    same_values = {'data': 3, 'N': D.token_len('complex', 3), 'dt': 'complex'} if dt == 'real' else \
                  {'data': 1, 'N': D.token_len('real', 1), 'dt': 'real'}
    back = {'data': 1, 'N': D.token_len(dt, 1), 'dt': dt}
    rd = ['ReadPsd', 0]
    s = [[rd, ['SetData', same_values], rd, ['SetData', back], rd],
         [rd, ['SetNFFT', 0], rd, ['SetSides', 'centerdc'], ['SetNFFT', 0], rd, ['SetNFFT', 1], ['SetSides', 'centerdc'], ['SetNFFT', 1], rd],
         [rd, ['SetSampling', D.S2], rd, ['SetSampling', D.S2], rd, ['SetScale', True], rd, ['SetScale', True], rd],
         [rd, ['SetSampling', D.S1], rd, ['SetSampling', D.S1N], rd, ['SetScale', True], rd, ['SetSampling', D.S1], rd, ['SetSampling', D.S1N], ['GetConverted', 'centerdc']],
         # explicit computations repeated on one object, with frequency scaling on and off
         [['SetScale', True], rd, ['Call', 0], rd, ['Call', 0], rd, ['SetScale', False], ['Call', 0], rd, ['SetScale', True], ['Call', 0], ['Call', 0], rd],
         # reading is not writing: every conversion is followed by a read, from every current layout
         [rd, ['SetSides', 'twosided'], ['GetConverted', 'onesided' if dt == 'real' else 'centerdc'], rd, ['GetConverted', 'centerdc'], rd,
          ['SetSides', 'centerdc'], ['GetConverted', 'onesided' if dt == 'real' else 'twosided'], rd, ['GetConverted', 'twosided'], rd,
          ['SetSides', 'default'], ['GetConverted', 'twosided'], rd, ['GetConverted', 'centerdc'], rd],
         # the record whose length is not a power of two, NFFT by name, frequency scaling on
         [['SetData', {'data': 2, 'N': D.token_len(dt, 2), 'dt': dt}], ['SetNFFT', 1], ['SetScale', True], rd, ['GetConverted', 'centerdc'],
          ['SetNFFT', 0], rd, ['SetNFFT', 1], rd],
         [rd, ['SetNFFT', 33], ['GetConverted', 'twosided'], ['SetNFFT', 24], ['GetConverted', 'onesided' if dt == 'real' else 'twosided'],
          ['SetData', {'data': 2, 'N': D.token_len(dt, 2), 'dt': dt}], ['GetConverted', 'centerdc'], rd]]
    if cls.kind == 'parametric':
        s.append([rd, ['SetArOrder', cls.ar[-1]], rd, ['SetArOrder', cls.ar[0]], rd])
        if cls.ma != (0,):
            s.append([rd, ['SetMaOrder', cls.ma[-1]], rd, ['SetMaOrder', cls.ma[0]], rd])
        if cls.name == 'parma':
            s.append([rd, ['SetLag', cls.lags[-1]], rd, ['SetLag', cls.lags[0]], rd])
    if cls.kind == 'fourier':
        s.append([rd, ['SetWindow', cls.windows[-1]], rd, ['SetLag', cls.lags[-1]], rd, ['SetDetrend', cls.detrends[-1]], rd])
    return s


def random_walks(chk, cls, dt, rec, refs, rng, nwalks, length):
    ops = random_ops(cls, dt, rng)
    scripts = directed_scripts(cls, dt)
    # every directed script twice: with python numbers and with numpy scalars as arguments
    plan = [(sc, np_) for sc in scripts for np_ in (False, True)] + [(None, bool(i % 3 == 2)) for i in range(nwalks)]
    for fixed, use_numpy in plan:
        D.NUMPY_SCALARS[0] = use_numpy
        at = initial_attrs(cls, dt, rng)
        ok, p = call_guard(cls.ctor, at)
        if not ok:
            raise core.MachineryError('cannot construct %s with %r: %r' % (cls.name, at, p))
        tid = rec.new_trace()
        script = []
        meta = {'cls': cls.name, 'dt': dt, 'init': at, 'script': script}
        rec.add(snap_event(tid, cls, p), meta)
        history = [D.attrs_of(p, cls)]
        computed = False        # has this object computed a PSD yet (tracked from the operations, public API only)
        for _s in range(length if fixed is None else len(fixed)):
            if fixed is not None:
                op, arg = fixed[_s]
            else:
                op, arg = rng.choice(ops)
                # one-sided is not a layout of complex data (rejected: C06); get_converted_psd is a conversion of a
                # *stored* PSD (C06): it is only exercised once a PSD has been computed (possibly out of date since)
                while (op in ('SetSides', 'GetConverted') and arg == 'onesided' and p.datatype == 'complex') or \
                      (op == 'GetConverted' and not computed):
                    op, arg = rng.choice(ops)
            script.append([op, arg])
            ev = op_event(tid, cls, p, op, arg, refs, history)
            if consistent_refusal(cls, p, op, ev):
                chk.count('walks-%s-%s' % (cls.name, dt), 'consistent-refusals')
                break
            rec.add(ev, dict(meta, upto=len(script)))
            if ev['err'] or 'broken' in ev['post']:
                break
            if op in ('Call', 'ReadPsd'):
                computed = True
            history.append(ev['post'])
        chk.traces += 1
    D.NUMPY_SCALARS[0] = False
    chk.count('walks-%s-%s' % (cls.name, dt), 'walks', nwalks)
    chk.count('walks-%s-%s' % (cls.name, dt), 'directed-scripts', 2 * len(scripts))


PAIRS = [('Periodogram', 'pburg'), ('pcorrelogram', 'MultiTapering'), ('pyule', 'pyule'), ('parma', 'pma'), ('pmusic', 'pev'),
         ('pcovar', 'pminvar'), ('Periodogram', 'Periodogram'), ('pmodcovar', 'pburg')]


def pair_walks(chk, rec, rng, nwalks, length):
    """SpectrumPair.tla: two objects alive together, operations interleaved at random.  Each operation is recorded as
    a Snap of the object it is applied to (the abstract state switches to that object) followed by the operation
    event, which also carries what the OTHER object reports (attributes, axis) before and after: the frame clause."""
    for w in range(nwalks):
        names = PAIRS[w % len(PAIRS)]
        dts = [('real', 'complex'), ('complex', 'real'), ('real', 'real'), ('complex', 'complex')][(w // len(PAIRS)) % 4]
        objs = []
        for name, dt in zip(names, dts):
            cls = D.CLASSES[name]
            at = initial_attrs(cls, dt, rng)
            ok, p = call_guard(cls.ctor, at)
            if not ok:
                raise core.MachineryError('cannot construct %s with %r: %r' % (name, at, p))
            objs.append({'cls': cls, 'p': p, 'dt': dt, 'ops': random_ops(cls, dt, rng), 'refs': D.RefCache(cls), 'hist': [D.attrs_of(p, cls)],
                         'computed': False, 'init': at})
        script = []
        meta = {'pair': list(names), 'dts': list(dts), 'init': [o['init'] for o in objs], 'script': script}
        for _s in range(length):
            i = rng.randrange(2)
            o, other = objs[i], objs[1 - i]
            op, arg = rng.choice(o['ops'])
            while (op in ('SetSides', 'GetConverted') and arg == 'onesided' and o['p'].datatype == 'complex') or \
                  (op == 'GetConverted' and not o['computed']):
                op, arg = rng.choice(o['ops'])
            script.append([i, op, arg])
            tid = rec.new_trace()
            pre = {'attrs': D.attrs_of(other['p'], other['cls']), 'axis': D.axis_of(other['p'])}
            snap = snap_event(tid, o['cls'], o['p'])
            ev = op_event(tid, o['cls'], o['p'], op, arg, o['refs'], o['hist'])
            if consistent_refusal(o['cls'], o['p'], op, ev):
                break
            try:
                post = {'attrs': D.attrs_of(other['p'], other['cls']), 'axis': D.axis_of(other['p'])}
            except Exception:
                post = {'broken': True}
            ev['others'] = [{'pre': pre, 'post': post}]
            rec.add(snap, dict(meta, upto=len(script)))
            rec.add(ev, dict(meta, upto=len(script)))
            if ev['err'] or 'broken' in ev['post']:
                break
            if op in ('Call', 'ReadPsd'):
                o['computed'] = True
            o['hist'].append(ev['post'])
        chk.traces += 1
    chk.count('pair-walks', 'walks', nwalks)


# ---------------------------------------------------------------------------- validation by TLC
def clean_event(ev):
    e = dict(ev)
    e.pop('exc', None)
    r = dict(e.get('ret') or {'valid': False})
    r.pop('staleof', None)
    r.pop('complexvalued', None)
    if not r.get('valid'):
        r = {'valid': False, 'fresh': False, 'layout': 'none', 'scaled': 0, 'len': 0}
    e['ret'] = r
    return e


def signature(ev, clause, prev):
    cls = ev['cls']
    if clause in ('read-fresh', 'read-layout', 'read-scaled-once', 'read-length', 'converted-fresh', 'converted-layout', 'converted-length'):
        # what happened just before the read decides which defect this is
        before = prev['op'] if prev is not None and prev['tid'] == ev['tid'] else 'Snap'
        if clause == 'read-scaled-once':
            return 'C07:%s:%s:scaled=%s' % (cls, clause, ev['ret'].get('scaled'))
        return 'C07:%s:%s:after-%s' % (cls, clause, before)
    return 'C07:%s:%s:%s' % (cls, clause, ev['op'])


C07_CLAUSES = ('other-live-objects-unaffected', 'no-exception', 'attributes', 'axis', 'read-fresh', 'read-layout', 'read-length',
               'converted-fresh', 'converted-layout', 'converted-length', 'unchanged-value-changes-nothing')


def validate(chk, rec, part, chunk=40000, clauses=C07_CLAUSES, prop='C07'):
    nfail = 0
    start = 0
    while start < len(rec.events):
        # cut at a trace boundary (the next chunk must begin with a Snap event)
        end = min(len(rec.events), start + chunk)
        while end < len(rec.events) and rec.events[end]['op'] != 'Snap':
            end += 1
        evs = rec.events[start:end]
        start0, start = start, end
        text = ''.join(json.dumps(clean_event(e), sort_keys=True) + '\n' for e in evs)
        res = chk.tlc('SpectrumTrace', tlc._cfg_text(), part=part, workers=1,
                      extra_files={'events.ndjson': text}, env={'TRACE_FILE': 'events.ndjson'})
        try:
            last = 0
            bad = []
            for st in res.states():
                last = max(last, st['l'])
                if st['fails']:
                    bad.append((st['l'] - 1, st['fails']))
        finally:
            tlc.cleanup(res.workdir)
        if last != len(evs) + 1:
            raise core.MachineryError('SpectrumTrace consumed %s of %d events' % (last - 1, len(evs)))
        for idx, clauses_failed in sorted(bad):
            ev = evs[idx - 1]
            prev = evs[idx - 2] if idx >= 2 else None
            nfail += 1
            for cl in sorted(clauses_failed):
                if cl not in clauses:
                    chk.count(part, 'clause-of-another-property:' + cl)
                    continue
                sig = signature(ev, cl, prev).replace('C07:', prop + ':', 1)
                what = ('%s: %s after %s(%s) fails clause "%s": post=%s axis=%s ret=%s %s'
                        % (ev['cls'], ev['op'], prev['op'] if prev else '-', prev['arg'] if prev else '-', cl,
                           ev.get('post'), ev.get('axis'), ev.get('ret'), ev.get('exc', '')))
                chk.violation(sig, what, {'event': ev, 'previous': prev, 'how_reached': rec.meta[start0 + idx - 1]})
        chk.events += len(evs)
    return nfail


GRAPH_CLASSES_QUICK = [('Periodogram', 'real'), ('pburg', 'complex'), ('parma', 'real'), ('MultiTapering', 'real')]
GRAPH_CLASSES_THOROUGH = [('Periodogram', 'real'), ('Periodogram', 'complex'), ('pcorrelogram', 'real'),
                          ('pburg', 'real'), ('pburg', 'complex'), ('parma', 'complex'), ('pma', 'real'),
                          ('pyule', 'real'), ('pcovar', 'complex'), ('pmodcovar', 'real'), ('pminvar', 'complex'),
                          ('pmusic', 'complex'), ('pev', 'real'), ('MultiTapering', 'real'), ('MultiTapering', 'complex')]


def refusal_is_persistent(chk):
    """An attribute value the estimator refuses (order above the record length, lag beyond the data, NFFT below the
    model order) makes the read raise; the next read must raise again (or succeed like a fresh object would) - it must
    not hand out the estimate of the earlier configuration."""
    n = 0
    for name in sorted(D.CLASSES):
        cls = D.CLASSES[name]
        for dt in ('real', 'complex'):
            at = {'dt': dt, 'data': 1, 'nfft': D.resolve_nfft(cls.nffts[-1], D.DATA_N[0]), 'samp': D.S1, 'scale': False,
                  'detrend': cls.detrends[0], 'window': cls.windows[0], 'lag': cls.lags[0], 'ar': cls.ar[0], 'ma': cls.ma[0]}
            N = D.DATA_N[0]
            cands = [('NFFT', 2)]
            if cls.kind == 'parametric':
                cands += [('ar_order', N + 4), ('ar_order', 10 * N)]
                if cls.ma != (0,):
                    cands.append(('ma_order', N + 4))
            if cls.kind == 'fourier' or name == 'parma':
                cands.append(('lag', N + 3))
            for attr, bad in cands:
                ok, p = call_guard(cls.ctor, at)
                if not ok:
                    continue
                ok0, first = call_guard(lambda: np.array(p.psd))
                oks, _ = call_guard(setattr, p, attr, bad)
                if not (ok0 and oks):
                    continue                      # the setter itself refuses the value: nothing is stored
                ok1, _r = call_guard(lambda: np.array(p.psd))
                if ok1:
                    continue                      # the estimator accepts the value
                ok2, second = call_guard(lambda: np.array(p.psd))
                n += 1
                if ok2 and second.shape == first.shape and np.allclose(second, first, rtol=1e-9, atol=0, equal_nan=True):
                    chk.violation('C07:%s:stale-after-refusal:%s' % (name, attr),
                                  '%s (%s data): %s = %r makes the first read raise, the second read returns the estimate of the earlier configuration'
                                  % (name, dt, attr, bad), {'cls': name, 'dt': dt, 'attr': attr, 'value': bad, 'init': at})
    chk.count('refusal-is-persistent', 'refused-configurations', n)
    chk.evaluations += n


def run(chk, classes=None):
    quick = chk.tier == 'quick'
    rng = random.Random(7000 + chk.seed)
    rec = Recorder()
    from concurrent.futures import ThreadPoolExecutor
    todo = GRAPH_CLASSES_QUICK if quick else GRAPH_CLASSES_THOROUGH
    with ThreadPoolExecutor(max_workers=4) as ex:
        graphs = list(ex.map(lambda nd: model_graph(chk, D.CLASSES[nd[0]], nd[1],
                                                    small=True if quick else (D.CLASSES[nd[0]].kind != 'base')), todo))
    for (name, dt), (nodes, init, edges) in zip(todo, graphs):
        cls = D.CLASSES[name]
        refs = D.RefCache(cls)
        walk_graph(chk, cls, dt, nodes, init, edges, rec, refs, rng, max_edges=2500 if quick else 60000)
    for name in sorted(D.CLASSES):
        cls = D.CLASSES[name]
        for dt in ('real', 'complex'):
            refs = D.RefCache(cls)
            random_walks(chk, cls, dt, rec, refs, rng, nwalks=12 if quick else 150, length=14 if quick else 40)
    pair_walks(chk, rec, rng, nwalks=16 if quick else 160, length=12 if quick else 30)
    pair_cfg = tlc._cfg_text(constants={'Ops': '<- OpsSmall', 'Init1': '<- I1', 'Init2': '<- I2', 'SharedAxis': False},
                             invariants=['OwnAxis'], properties=['Frame'])
    res = chk.tlc('MC_SpectrumPair', pair_cfg, part='model-pair', dump=False, workers=2)
    tlc.cleanup(res.workdir)
    refusal_is_persistent(chk)
    validate(chk, rec, 'trace-validation')
    chk.count('trace-validation', 'events', len(rec.events))
    for k in (1, len(rec.events) // 2):
        if k < len(rec.events):
            chk.sample('trace-event', clean_event(rec.events[k]), 2)
    chk.assumptions.append('reference for a read: PSD of a freshly constructed real object with the attribute values '
                           'read back after the read (rtol 1e-9); data tokens are fixed seeded vectors of length 16 and 20')


def replay_case(chk, sig, case):
    """re-execute the recorded path / script on the current tree and validate it"""
    how = case['how_reached']
    cls = D.CLASSES[how['cls']]
    dt = how['dt']
    rec = Recorder()
    refs = D.RefCache(cls)
    if 'script' in how:
        at = how['init']
        script = how['script'][:how.get('upto', len(how['script']))]
    else:
        raise core.MachineryError('graph cases are replayed by re-running the check (deterministic)')
    ok, p = call_guard(cls.ctor, at)
    tid = rec.new_trace()
    rec.add(snap_event(tid, cls, p), how)
    history = [D.attrs_of(p, cls)]
    for op, arg in script:
        ev = op_event(tid, cls, p, op, arg, refs, history)
        rec.add(ev, how)
        if ev['err']:
            break
        history.append(ev['post'])
    chk.traces += 1
    validate(chk, rec, 'replay')
