"""C09 - correlation estimates match their definition and are consistent.

Correlation.tla: TLC enumerates every small x (and y), evaluates every normalisation
from the definition and checks r[0] = mean|x|^2 >= |r[k]|, coefficient = 1 at lag 0,
Hermitian lags and Gram(autocorrelation data matrix) = N * Toeplitz(biased r); each
final state is replayed into CORRELATION and xcorr; CorrMtxEnum.tla gives the index
matrix of corrmtx for every (N, m, method), applied to real data by the harness.
Large N: observation events (ObsC09.tla).
"""
import numpy as np

from .. import core, material as M, tlc, obs
from ..kern_util import scale_for, call_guard, cmp_vec

NORMS = ('biased', 'unbiased', None, 'coeff')


def seq_in(seq, cplx, kind):
    if cplx:
        return np.array(M.cq_seq(seq), dtype=complex)
    rl = M.real_list(seq)
    if kind == 'list':
        return list(rl)
    return np.array(rl, dtype=float)


def replay_corr(chk, st, cplx):
    from spectrum import CORRELATION, xcorr
    if st['phase'] != 'done':
        return
    out = st['out']
    N = out['N']
    auto = len(st['y']) == 0
    mode = ('complex' if cplx else 'real') + ('-auto' if auto else '-cross')
    expect = {'biased': np.array(M.cq_seq(out['biased'])), 'unbiased': np.array(M.cq_seq(out['unbiased'])),
              None: np.array(M.cq_seq(out['raw']))}
    if len(out['coeff']):
        expect['coeff'] = np.array(M.cq_seq(out['coeff']))
    rawyx = np.array(M.cq_seq(out['rawyx']))
    lens = 'equal' if (auto or len(st['x']) == len(st['y'])) else ('x-shorter' if len(st['x']) < len(st['y']) else 'y-shorter')
    cnt9 = getattr(chk, '_c09_kind', 0)
    chk._c09_kind = cnt9 + 1
    kinds = ['ndarray'] if cplx else ['list', 'ndarray']
    if cnt9 % 3 == 0:
        kinds.append('strided-view')        # (every third state: the double loops of CORRELATION are slow)
    # mixed datatypes: a real-valued member of a complex pair is also passed with a real dtype
    xreal = all(M.cq_is_real(v) for v in st['x'])
    yreal = (not auto) and all(M.cq_is_real(v) for v in st['y'])
    if cplx and not auto:
        if xreal and not yreal:
            kinds.append('x-real-dtype')
        if yreal and not xreal:
            kinds.append('y-real-dtype')
    for kind in kinds:
        x = seq_in(st['x'], cplx and kind != 'x-real-dtype', kind if kind in ('list', 'ndarray') else 'ndarray')
        y = None if auto else seq_in(st['y'], cplx and kind != 'y-real-dtype', kind if kind in ('list', 'ndarray') else 'ndarray')
        if kind == 'strided-view':
            x = _strided(x)
            y = None if y is None else _strided(y)
        for norm, exp in expect.items():
            for L in sorted({0, N - 1, (N - 1) // 2}):
                case = {'fn': 'CORRELATION', 'x': x, 'y': y, 'maxlags': L, 'norm': norm, 'expect': exp[:L + 1]}
                if norm == 'coeff' and not auto:
                    continue
                ok, res = call_guard(CORRELATION, x if kind in ('list', 'strided-view') else x.copy(), None if y is None else (y if kind in ('list', 'strided-view') else y.copy()),
                                     maxlags=L, norm=norm)
                chk.evaluations += 1
                if not ok:
                    chk.violation('C09:CORRELATION:%s:%s:raises' % (mode, lens), 'CORRELATION raises %r' % (res,), case)
                    continue
                bad = cmp_vec(res, exp[:L + 1], name='r')
                if bad:
                    chk.violation('C09:CORRELATION:%s:%s:norm=%s%s' % (mode, lens, norm, ':' + kind if kind.endswith('dtype') else ''),
                                  'CORRELATION(x=%s, y=%s, maxlags=%d, norm=%s) = %s, definition gives %s'
                                  % (np.asarray(x).tolist(), None if y is None else np.asarray(y).tolist(), L, norm,
                                     np.asarray(res).tolist(), exp[:L + 1].tolist()), dict(case, observed=res))
                if not cplx and ok and np.iscomplexobj(res):
                    chk.violation('C09:CORRELATION:real-gives-complex', 'real input gives a complex correlation', case)
        # homogeneity of degree 2 (0 for coeff): the same state at a scale far from 1, results un-scaled
        if kind == 'ndarray':
            cnt = getattr(chk, '_c09_scale', 0)
            chk._c09_scale = cnt + 1
            c = scale_for(cnt)
            for norm, exp in expect.items():
                if norm == 'coeff' and not auto:
                    continue
                ok, res = call_guard(CORRELATION, x * c, None if y is None else y * c, maxlags=N - 1, norm=norm)
                un = 1.0 if norm == 'coeff' else c * c
                bad = ('raises %r' % (res,)) if not ok else cmp_vec(np.asarray(res) / un, exp[:N], name='r')
                if bad:
                    chk.violation('C09:CORRELATION:%s:%s:norm=%s:scaled-input' % (mode, lens, norm),
                                  'CORRELATION(c*x, c*y, norm=%s)/c^2 with c=%g differs from the definition: %s' % (norm, c, bad),
                                  {'fn': 'CORRELATION', 'x': x, 'y': y, 'scale': c, 'norm': norm, 'expect': exp[:N]})
                if lens == 'equal':
                    ok, res = call_guard(xcorr, x * c, None if y is None else y * c, maxlags=N - 1, norm=norm)
                    bad = ('raises %r' % (res,)) if not ok else cmp_vec(np.asarray(res[0])[N - 1:] / un, exp[:N], name='r')
                    if bad:
                        chk.violation('C09:xcorr:%s:norm=%s:scaled-input' % (mode, norm),
                                      'xcorr(c*x, c*y, norm=%s)/c^2 with c=%g differs from the definition at lags >= 0: %s' % (norm, c, bad),
                                      {'fn': 'xcorr', 'x': x, 'y': y, 'scale': c, 'norm': norm, 'expect': exp[:N]})
        # two-sided variant (equal lengths only: xcorr refuses the others)
        if lens == 'equal' and kind != 'list':
            yy = x if y is None else y
            for norm, exp in expect.items():
                if norm == 'coeff' and not auto:
                    continue
                div = {'biased': lambda k: N, 'unbiased': lambda k: N - k, None: lambda k: 1,
                       'coeff': lambda k: (expect[None][0].real if expect[None][0].real else 1)}[norm]
                for L in sorted({0, N - 1, None}, key=lambda v: -1 if v is None else v):
                    LL = N - 1 if L is None else L
                    neg = [np.conj(rawyx[k] / div(k)) for k in range(LL, 0, -1)]
                    two = np.array(neg + list(exp[:LL + 1]))
                    case = {'fn': 'xcorr', 'x': x, 'y': y, 'maxlags': L, 'norm': norm, 'expect': two}
                    ok, res = call_guard(xcorr, x.copy(), None if y is None else yy.copy(), maxlags=L, norm=norm)
                    chk.evaluations += 1
                    if not ok:
                        chk.violation('C09:xcorr:%s:raises' % mode, 'xcorr raises %r' % (res,), case)
                        continue
                    vals, lags = res
                    bad = cmp_vec(vals, two, name='r') or cmp_vec(lags, np.arange(-LL, LL + 1), name='lags')
                    if bad:
                        chk.violation('C09:xcorr:%s:norm=%s' % (mode, norm),
                                      'xcorr(x=%s, y=%s, maxlags=%s, norm=%s): %s' % (x.tolist(), None if y is None else yy.tolist(), L, norm, bad),
                                      dict(case, observed=vals))
    chk.replayed += 1
    chk.count('correlation-' + mode, 'replayed')
    chk.count('correlation-' + mode, lens)
    if N == 3:
        chk.sample('correlation-' + mode, {'x': st['x'], 'y': st['y'], 'biased': out['biased']}, 1)


def corr_jobs(chk):
    quick = chk.tier == 'quick'
    inv = ['ZeroLagIsPower', 'CoeffUnitAtZero', 'HermitianLags', 'GramIsToeplitz']
    specs = [(False, 4 if quick else 5, 0, 'PartsS' if quick else 'PartsQ'),
             (False, 3, 3, 'PartsS'),
             (True, 3 if quick else 4, 0, 'PartsS'),
             (True, 2, 2, 'PartsS')]
    if not quick:
        specs.append((False, 3, 3, 'PartsQ'))
        specs.append((True, 3, 2, 'PartsS'))
    js = []
    for cplx, n, m, parts in specs:
        cfg = tlc._cfg_text(constants={'MaxN': n, 'MaxM': m, 'Parts': '<- ' + parts, 'Complex': cplx}, invariants=inv)
        js.append({'module': 'MC_Correlation', 'cfg': cfg,
                   'part': 'correlation-%s-%s' % ('complex' if cplx else 'real', 'cross' if m else 'auto'),
                   'replay': (lambda st, c=cplx: replay_corr(chk, st, c))})
    return js


# ---------------------------------------------------------------- corrmtx
def _strided(x):
    """the same samples as a non-contiguous view (a column of a record, x[::2], z.real)"""
    big = np.empty(2 * len(x), dtype=np.asarray(x).dtype)
    big[0::2] = x
    big[1::2] = 55 - np.asarray(x)[::-1]
    return big[0::2]


def _sorted_rows(mat):
    a = np.asarray(mat)
    if a.ndim != 2 or a.size == 0:
        return a
    a = a.astype(complex)
    keys = tuple(k for j in range(a.shape[1] - 1, -1, -1) for k in (np.round(a[:, j].imag, 9), np.round(a[:, j].real, 9)))
    return a[np.lexsort(keys)]


def replay_corrmtx(chk, st, rng):
    from spectrum import corrmtx
    N, m, method, mat = st['N'], st['m'], st['method'], st['mat']
    for cplx in (False, True):
        x = rng.randint(-9, 10, N).astype(float)
        if cplx:
            x = x + 1j * rng.randint(-9, 10, N)
        exp = np.array([[0 if e[0] == 0 else (np.conj(x[e[0] - 1]) if e[1] else x[e[0] - 1]) for e in row] for row in mat])
        # entry paths: the default dtype, a python list, and the narrower dtypes of the same (integer-valued) samples
        kinds = ['ndarray', 'list', 'strided-view'] + (['complex64'] if cplx else ['float32', 'int64', 'int16'])
        for kind in kinds:
            arg = x.copy() if kind == 'ndarray' else list(x) if kind == 'list' else _strided(x) if kind == 'strided-view' else x.astype(kind)
            case = {'fn': 'corrmtx', 'x': x, 'm': m, 'method': method, 'entry': kind, 'expect': exp}
            ok, res = call_guard(corrmtx, arg, m, method)
            chk.evaluations += 1
            if not ok:
                chk.violation('C09:corrmtx:%s:raises' % method, 'corrmtx raises %r' % (res,), case)
                continue
            # The statement pins the data matrix through its Gram matrix (and C12 / C14 through least squares): both are
            # invariant under a permutation of the ROWS, so rows are compared as a multiset (lexicographic order).
            bad = cmp_vec(_sorted_rows(res), _sorted_rows(exp), tol=1e-12, name='matrix (rows as a multiset)')
            if bad:
                chk.violation('C09:corrmtx:%s:%s:%s' % (method, 'complex' if cplx else 'real', kind if kind not in ('ndarray', 'list') else 'default'),
                              'corrmtx(N=%d, m=%d, %s) differs from its definition: %s' % (N, m, method, bad), dict(case, observed=res))
    chk.replayed += 1
    chk.count('corrmtx', 'replayed')
    if N == 4 and m == 2 and method == 'modified':
        chk.sample('corrmtx-index-matrix', {'N': N, 'm': m, 'method': method, 'mat': mat}, 1)


def corrmtx_job(chk):
    rng = np.random.RandomState(900 + chk.seed)
    cfg = tlc._cfg_text(constants={'MaxN': 6 if chk.tier == 'quick' else 9}, invariants=['NoZeroInCovariance', 'Shape'])
    return {'module': 'CorrMtxEnum', 'cfg': cfg, 'part': 'corrmtx', 'replay': lambda st: replay_corrmtx(chk, st, rng)}


# ---------------------------------------------------------------- large N
def obs_events(chk):
    from spectrum import CORRELATION, xcorr, corrmtx
    rng = np.random.RandomState(950 + chk.seed)
    batch = obs.Batch('ObsC09')
    reps = 12 if chk.tier == 'quick' else 120
    sizes = [7, 16, 33, 64, 100, 129, 200]
    grid = [(N, c, None) for N in sizes for c in (False, True)]
    # records longer than any plausible switch to an FFT-based path (128, 256, 512, 1024), with a number of lags in the
    # middle of the range (where an under-padded circular correlation wraps around); past 4096 / 8192 / 16384 samples
    # with a few lags only (the double loop of CORRELATION is slow)
    big = [(257, False, 128), (520, True, 260), (600, False, 450), (1030, False, 515),
           (4100, True, 6), (4500, False, 5)] + ([(1030, True, 300), (2050, False, 1025), (8200, True, 4), (16400, False, 3)] if chk.tier != 'quick' else [])
    grid += big
    for rep in range(reps + len(grid)):
        Lfix = None
        if rep < len(grid):
            N, cplx, Lfix = grid[rep]
        else:
            N = int(rng.choice(sizes))
            cplx = bool(rng.randint(2))
        x = rng.randn(N) * 10 ** rng.uniform(-2, 2)
        y = rng.randn(N)
        if cplx:
            x = x + 1j * rng.randn(N)
            y = y + 1j * rng.randn(N)
        L = int(rng.randint(0, N)) if Lfix is None else Lfix
        full = np.correlate(x, x, 'full')[N - 1:]          # the definition: sum_n x[n+k] conj(x[n]), k = 0..N-1
        for norm in (('biased', 'unbiased', None, 'coeff') if Lfix is None else ('biased', None)):
            ev = {'ev': 'consistency', 'N': N, 'L': L, 'cplx': cplx, 'norm': str(norm)}
            ok1, a = call_guard(CORRELATION, x.copy(), maxlags=L, norm=norm)
            ok2, b = call_guard(xcorr, x.copy(), maxlags=L, norm=norm)
            ev['raised'] = not (ok1 and ok2)
            if ok1 and ok2:
                vals, lags = b
                sc = max(np.max(np.abs(a)), 1e-300)
                div = {'biased': N, 'unbiased': N - np.arange(L + 1), 'None': 1.0, 'coeff': full[0].real}[str(norm)]
                ev['def_dev'] = obs.q(np.max(np.abs(np.asarray(a) - full[:L + 1] / div)) / sc) if len(a) == L + 1 else obs.QCAP
                ev['len_c'] = int(len(a))
                ev['len_x'] = int(len(vals))
                ev['lag_first'] = int(lags[0])
                ev['lag_last'] = int(lags[-1])
                ev['pos_dev'] = obs.q(np.max(np.abs(vals[L:] - a)) / sc) if len(vals) == 2 * L + 1 else obs.QCAP
                ev['neg_dev'] = obs.q(np.max(np.abs(vals[:L + 1][::-1] - np.conj(a))) / sc) if len(vals) == 2 * L + 1 else obs.QCAP
                ev['zero_lag_unit'] = bool(abs(a[0] - 1) < 1e-9) if norm == 'coeff' else True
            else:
                ev.update(len_c=0, len_x=0, lag_first=0, lag_last=0, pos_dev=0, neg_dev=0, def_dev=0, zero_lag_unit=False)
            batch.add(ev, {'N': N, 'L': L, 'cplx': cplx, 'norm': norm, 'seed': chk.seed, 'rep': rep})
        # cross correlation, equal lengths: xcorr vs CORRELATION in both directions
        ev = {'ev': 'cross', 'N': N, 'L': L, 'cplx': cplx}
        ok1, a = call_guard(CORRELATION, x.copy(), y.copy(), maxlags=L, norm='biased')
        ok3, a2 = call_guard(CORRELATION, y.copy(), x.copy(), maxlags=L, norm='biased')
        ok2, b = call_guard(xcorr, x.copy(), y.copy(), maxlags=L, norm='biased')
        ev['raised'] = not (ok1 and ok2 and ok3)
        if not ev['raised']:
            vals, lags = b
            sc = max(np.max(np.abs(a)), 1e-300)
            ev['pos_dev'] = obs.q(np.max(np.abs(vals[L:] - a)) / sc)
            ev['neg_dev'] = obs.q(np.max(np.abs(vals[:L + 1][::-1] - np.conj(a2))) / sc)
        else:
            ev.update(pos_dev=0, neg_dev=0)
        batch.add(ev, {'N': N, 'L': L, 'cplx': cplx, 'seed': chk.seed, 'rep': rep})
        # biased autocorrelation: r0 = mean|x|^2 >= |r_k|, Toeplitz matrix positive semi-definite,
        # Gram of the data matrix = N * Toeplitz
        m = int(min(N - 1, rng.randint(1, 12)))
        ev = {'ev': 'toeplitz', 'N': N, 'm': m, 'cplx': cplx}
        ok1, r = call_guard(CORRELATION, x.copy(), maxlags=m, norm='biased')
        ok2, X = call_guard(corrmtx, x.copy(), m, 'autocorrelation')
        ev['raised'] = not (ok1 and ok2)
        if not ev['raised']:
            T = np.array([[r[i - j] if i >= j else np.conj(r[j - i]) for j in range(m + 1)] for i in range(m + 1)])
            X = np.asarray(X)
            G = X.conj().T @ X
            sc = abs(r[0])
            ev['r0_dev'] = obs.q(abs(r[0] - np.mean(np.abs(x) ** 2)) / sc)
            ev['dominant'] = bool(np.all(np.abs(r) <= abs(r[0]) * (1 + 1e-12)))
            ev['min_eig_q'] = obs.qs(float(np.min(np.linalg.eigvalsh(T))) / sc, 1e-9)
            ev['gram_dev'] = obs.q(np.max(np.abs(G - N * T)) / (N * sc))
            ev['shape_ok'] = bool(X.shape == (N + m, m + 1))
        else:
            ev.update(r0_dev=0, dominant=False, min_eig_q=0, gram_dev=0, shape_ok=False)
        batch.add(ev, {'N': N, 'm': m, 'cplx': cplx, 'seed': chk.seed, 'rep': rep})
    obs.validate(chk, batch, 'obs-large-N', lambda ev, cl: 'C09:OBS:%s:%s:%s' % (ev['ev'], cl, ev.get('norm', '')),
                 lambda ev, cl: 'N=%s: clause "%s" fails: %s' % (ev['N'], cl, ev))
    chk.sample('obs-event', batch.events[-1], 1)


def run(chk):
    core.run_jobs(chk, corr_jobs(chk) + [corrmtx_job(chk)])
    obs_events(chk)
    from .. import session
    session.run_for(chk, 'C09')      # Session.tla: results do not depend on earlier calls
    from .. import units
    units.run_for(chk, 'C09')      # Units.tla: the unit the data are expressed in is not part of the data
    from .. import carrier
    carrier.run_for(chk, 'C09')      # Carrier.tla: a sample denotes its value whatever container carries it


def replay_case(chk, sig, case):
    run(chk)
