"""C19 - multitaper estimates are weighted means of tapered periodograms.

MultiTaper.tla: pmtm / MultiTapering with caller-supplied rational tapers on the exact
4-point grid (eigenspectra, unity / eigen weights, class output; TLC checks non-negativity,
Parseval per taper, real symmetry); every state is replayed into pmtm(e=, v=) and
MultiTapering(e=, v=).  Genuine Slepian tapers, N up to 1024, adaptive weights: ObsC19.tla.
"""
import numpy as np

from .. import core, material as M, tlc, obs, zoo
from ..kern_util import call_guard, cmp_vec, np_int

TAPERS = {3: ('T3', 'L2'), 4: ('T4', 'L3')}


def replay_state(chk, st, cplx, n, tapers, lambdas):
    from spectrum import pmtm, MultiTapering
    if st['phase'] != 'done':
        return
    mode = 'complex' if cplx else 'real'
    out = st['out']
    xa = np.array(M.cq_seq(st['x']), dtype=complex) if cplx else np.array(M.real_list(st['x']), dtype=float)
    expS = np.array([M.cq_seq(row) for row in out['eig']])
    K = len(lambdas)
    for method in ('unity', 'eigen'):
        expW = np.ones((K, 1)) if method == 'unity' else np.array([[float(M.rat(w))] for w in out['w_eigen']])
        expP = np.array([float(M.rat(v)) for v in out[method]])
        case = {'x': xa, 'tapers': tapers, 'eigenvalues': lambdas, 'method': method, 'NFFT': 4}
        ok, res = call_guard(pmtm, xa.copy(), e=lambdas.copy(), v=tapers.copy(), NFFT=4, method=method)
        chk.evaluations += 1
        if not ok:
            chk.violation('C19:pmtm:%s:%s:raises' % (method, mode), 'pmtm(e=, v=) raises %r' % (res,), case)
            continue
        Sk, w, lam = res
        bad = (cmp_vec(Sk, expS, tol=1e-9, name='eigenspectra') or cmp_vec(np.asarray(w, dtype=float), expW, tol=1e-12, name='weights')
               or cmp_vec(np.asarray(lam, dtype=float), lambdas, tol=1e-12, name='eigenvalues'))
        if bad:
            chk.violation('C19:pmtm:%s:%s:%s' % (method, mode, bad.split(' ')[0]),
                          'pmtm(x=%s, method=%s) with supplied tapers: %s' % (xa.tolist(), method, bad), dict(case, observed={'Sk': Sk, 'w': w}))
        # supplied tapers are the tapers used, whether or not NW / k are passed along with them
        for extra in ({}, {'NW': 1.0}, {'NW': 1.0, 'k': K}):
            tag = '' if not extra else ':with-' + '-'.join(sorted(extra))
            ok, obj = call_guard(lambda: MultiTapering(xa.copy(), e=lambdas.copy(), v=tapers.copy(), NFFT=4, method=method, scale_by_freq=False, **extra))
            if ok:
                ok, psd = call_guard(lambda: np.array(obj.psd))
            if not ok:
                chk.violation('C19:MultiTapering:%s:%s:raises%s' % (method, mode, tag), 'MultiTapering(e=, v=%s) raises %r' % (extra, obj if not ok else psd), case)
                continue
            exp = expP if cplx else 2 * expP[:3]
            bad = cmp_vec(psd, exp, tol=1e-9, name='psd')
            if bad:
                chk.violation('C19:MultiTapering:%s:%s:values%s' % (method, mode, tag),
                              'MultiTapering(x=%s, method=%s, e=, v=, %s).psd is not the mean of weight*|eigenspectrum|^2 of the supplied tapers: %s'
                              % (xa.tolist(), method, extra, bad), dict(case, expect=exp, observed=psd, extra=extra))
    chk.replayed += 1
    chk.count('multitaper-' + mode, 'replayed')
    chk.sample('multitaper-' + mode, {'x': st['x'], 'eig': out['eig'], 'unity': out['unity']}, 1)


def jobs(chk):
    quick = chk.tier == 'quick'
    js = []
    tv = {3: np.array([[0.5, 1, 0.5], [1, 0, -1]]).T, 4: np.array([[0.25, 0.75, 0.75, 0.25], [0.5, 0.25, -0.25, -0.5], [0.5, -0.5, -0.5, 0.5]]).T}
    lv = {3: np.array([0.9, 0.5]), 4: np.array([0.9, 0.75, 0.25])}
    for cplx in (False, True):
        for n in (3, 4):
            if quick and cplx and n == 4:
                continue
            cfg = tlc._cfg_text(constants={'N': n, 'Parts': '<- PartsS' if (quick or cplx) else '<- PartsQ', 'Complex': cplx,
                                           'Tapers': '<- ' + TAPERS[n][0], 'Lambdas': '<- ' + TAPERS[n][1]},
                                invariants=['NonNegative', 'ParsevalPerTaper', 'RealSymmetric'])
            js.append({'module': 'MC_MultiTaper', 'cfg': cfg, 'part': 'multitaper-' + ('complex' if cplx else 'real'),
                       'replay': (lambda st, c=cplx, nn=n: replay_state(chk, st, c, nn, tv[nn], lv[nn]))})
    return js


def obs_events(chk):
    from spectrum import pmtm, MultiTapering, dpss
    rng = np.random.RandomState(1900 + chk.seed)
    batch = obs.Batch('ObsC19')
    reps = 8 if chk.tier == 'quick' else 60
    # directed corner cases first (single taper, default k, k = 2NW), then random ones
    directed = [(32, 1.0, 1, False), (32, 1.0, 1, True), (33, 2.0, 1, True), (24, 1.5, 3, False), (40, 2.5, 5, True), (16, 2.0, 4, False)]
    # more tapers than 2NW requested explicitly: the caller gets as many eigenspectra as asked for
    directed += [(32, 2.0, 6, False), (33, 1.5, 5, True), (64, 2.5, 7, False)]
    # large time-bandwidth products: the leading concentrations are 1 to rounding (taper i is still the i-th Slepian sequence)
    directed += [(64, 8.0, 16, False), (128, 10.0, 12, True)]
    for rep in range(reps + len(directed)):
        if rep < len(directed):
            N, NW, k, cplx = directed[rep]
        else:
            N = int(rng.choice([16, 33, 64, 128, 256] + ([512, 1024] if chk.tier != 'quick' else [])))
            NW = float(rng.choice([1.5, 2, 2.5, 3, 4]))
            if NW >= N / 2.0:
                NW = 1.5
            k = int(rng.randint(1, int(2 * NW) + 1))
            cplx = bool(rng.randint(2))
        # amplitude variety: Thomson's formula and the convergence test are relative to the data variance
        x = zoo.signal(rng, N, cplx, ['noise', 'tones'][rep % 2]) * [1.0, 1e-3, 1e3, 1e-2][rep % 4]
        if rep % 3 == 2:
            # a record with a mean: sigma^2 of Thomson's formula is the power of the record, the integral of the spectrum
            # the weights are applied to (DC line included), not its variance about the mean
            x = x + 2.0 * [1.0, 1e-3, 1e3, 1e-2][rep % 4] * (1 + (0.5j if cplx else 0))
        nfft = int(rng.choice([N, N + 3, 2 * N]))
        ok, tv = call_guard(dpss, N, NW, k)
        if not ok:
            continue
        tapers, lam = tv
        for method in ('unity', 'eigen', 'adapt'):
            ev = {'ev': 'pmtm', 'method': method, 'N': N, 'k': k, 'nfft': nfft, 'cplx': cplx, 'nw10': int(NW * 10)}
            ok, res = call_guard(pmtm, x.copy(), NW=NW, k=np_int(k, rep), NFFT=np_int(nfft, rep + 1), method=method)
            ev['raised'] = not ok
            if ok:
                Sk, w, e = res
                Sk = np.asarray(Sk)
                w = np.asarray(w)
                ref = np.fft.fft(tapers.T * x, nfft)
                ev['dft_dev'] = obs.q(zoo.rel_dev(Sk, ref))
                ev['eig_dev'] = obs.q(zoo.rel_dev(np.asarray(e), lam))
                ev['shapes_ok'] = bool(Sk.shape == (k, nfft) and len(e) == k)
                P = np.abs(Sk) ** 2
                if method == 'unity':
                    ev['w_dev'] = obs.q(zoo.rel_dev(w, np.ones((k, 1))))
                    ev['w_real'] = True
                    ev['w_in_range'] = True
                elif method == 'eigen':
                    ev['w_dev'] = obs.q(zoo.rel_dev(w, (lam / (np.arange(k) + 1.0)).reshape(k, 1)))
                    ev['w_real'] = True
                    ev['w_in_range'] = True
                else:
                    ev['w_real'] = bool(np.isrealobj(w) or np.max(np.abs(np.imag(w))) == 0)
                    wr = np.real(w)
                    ev['w_in_range'] = bool(w.shape == (nfft, k) and np.all(wr >= -1e-12) and np.all(wr <= 1.0 / lam + 1e-9))
                    if w.shape == (nfft, k):
                        sig2 = np.real(np.vdot(x, x)) / N
                        S = np.sum(wr * P.T, axis=1) / np.sum(wr, axis=1)
                        S = S.reshape(nfft, 1)
                        wf = (S / (S * lam + sig2 * (1 - lam))) ** 2 * lam
                        ev['w_dev'] = obs.q(zoo.rel_dev(wr, wf))
                    else:
                        ev['w_dev'] = obs.QCAP
            else:
                ev.update(dft_dev=0, eig_dev=0, shapes_ok=False, w_dev=0, w_real=False, w_in_range=False)
            batch.add(ev, {'N': N, 'NW': NW, 'k': k, 'nfft': nfft, 'method': method, 'seed': chk.seed, 'rep': rep})
            # class
            ev = {'ev': 'class', 'method': method, 'N': N, 'k': k, 'nfft': nfft, 'cplx': cplx}
            ok1, a = call_guard(lambda: np.array(MultiTapering(x.copy(), NW=NW, k=k, NFFT=nfft, method=method, scale_by_freq=False).psd))
            ok2, b = call_guard(lambda: np.array(MultiTapering(x.copy(), e=lam.copy(), v=tapers.copy(), NFFT=nfft, method=method, scale_by_freq=False).psd))
            ev['raised'] = not (ok and ok1 and ok2)
            if not ev['raised']:
                Sk, w, e = res
                P = np.abs(np.asarray(Sk)) ** 2
                w = np.real(np.asarray(w))
                two = np.mean(P * w, axis=0) if method != 'adapt' else np.mean(P.T * w, axis=1)
                if cplx:
                    exp = two
                else:
                    h = nfft // 2 + 1 if nfft % 2 == 0 else (nfft + 1) // 2
                    exp = 2 * two[:h]
                ev['len_ok'] = bool(len(a) == len(exp))
                ev['real_nonneg'] = bool(np.isrealobj(a) and np.all(a >= 0))
                ev['mean_dev'] = obs.q(zoo.rel_dev(a, exp))
                ev['pre_dev'] = obs.q(zoo.rel_dev(b, a))
            else:
                ev.update(len_ok=False, real_nonneg=False, mean_dev=0, pre_dev=0)
            batch.add(ev, {'N': N, 'NW': NW, 'k': k, 'nfft': nfft, 'method': method, 'seed': chk.seed, 'rep': rep})
        # the class on a second computation: after new data (same length and another length) the estimate is that
        # of a fresh object on the new data (tapers and eigenvalues are recomputed, nothing cached is reused)
        for method in ('eigen', 'adapt'):
            y1 = zoo.signal(rng, N, cplx, 'noise')
            y2 = zoo.signal(rng, N + 5, cplx, 'noise')
            ev = {'ev': 'class', 'method': method, 'N': N, 'k': k, 'nfft': nfft, 'cplx': cplx, 'recompute': True}

            nfft_l = max(nfft, N + 5)        # admissible (NFFT >= N) for both records

            def live():
                p = MultiTapering(x.copy(), NW=NW, k=k, NFFT=nfft_l, method=method, scale_by_freq=False)
                p.psd
                out = []
                for y in (y1, y2):
                    p.data = y
                    out.append(np.array(p.psd))
                return out
            ok1, a = call_guard(live)
            ok2, b = call_guard(lambda: [np.array(MultiTapering(y.copy(), NW=NW, k=k, NFFT=nfft_l, method=method, scale_by_freq=False).psd) for y in (y1, y2)])
            ev['raised'] = not (ok1 and ok2)
            if ok1 and ok2:
                ev['len_ok'] = bool(all(len(u) == len(v) for u, v in zip(a, b)))
                ev['real_nonneg'] = bool(all(np.isrealobj(u) and np.all(u >= 0) for u in a))
                ev['mean_dev'] = obs.q(max(zoo.rel_dev(u, v) for u, v in zip(a, b)))
                ev['pre_dev'] = 0
            else:
                ev.update(len_ok=False, real_nonneg=False, mean_dev=0, pre_dev=0)
            batch.add(ev, {'N': N, 'NW': NW, 'k': k, 'nfft': nfft, 'method': method, 'seed': chk.seed, 'rep': rep, 'recompute': True})
    # NW, k and the method re-assigned on an evaluated object, then an explicit computation: the estimate of a fresh object
    # with those values (tapers, eigenvalues and weights are those of the current attributes)
    for i, (nw2, k2, m2) in enumerate(((4.0, 6, 'eigen'), (2.0, 3, 'adapt'), (3.0, 5, 'unity'))):
        cplx = bool(i % 2)
        N = 48
        x = zoo.signal(rng, N, cplx, 'tones')
        ev = {'ev': 'class', 'method': m2, 'N': N, 'k': k2, 'nfft': 64, 'cplx': cplx, 'recompute': True}

        def live2():
            p = MultiTapering(x.copy(), NW=2.5, k=4, NFFT=64, method='eigen', scale_by_freq=False)
            p.psd
            p.NW, p.k, p.method = nw2, k2, m2
            p()
            return np.array(p.psd)
        ok1, a = call_guard(live2)
        ok2, b = call_guard(lambda: np.array(MultiTapering(x.copy(), NW=nw2, k=k2, NFFT=64, method=m2, scale_by_freq=False).psd))
        ev['raised'] = not (ok1 and ok2)
        if ok1 and ok2:
            ev['len_ok'] = bool(a.shape == b.shape)
            ev['real_nonneg'] = bool(np.isrealobj(a) and np.all(a >= 0))
            ev['mean_dev'] = obs.q(zoo.rel_dev(a, b)) if a.shape == b.shape else obs.QCAP
            ev['pre_dev'] = 0
        else:
            ev.update(len_ok=False, real_nonneg=False, mean_dev=0, pre_dev=0)
        batch.add(ev, {'N': N, 'NW': nw2, 'k': k2, 'method': m2, 'reassigned': True, 'seed': chk.seed})
    # the default number of tapers, for time half-bandwidths that are and are not multiples of 1/2
    for i, NW in enumerate((2.5, 2.3, 3.4, 1.9, 4, 2.75) if chk.tier == 'quick' else (2.5, 2.3, 3.4, 1.9, 4, 2.75, 1.3, 2.8, 3.3, 4.45, 2.25, 3)):
        N = (32, 45, 64)[i % 3]
        cplx = bool(i % 2)
        x = zoo.signal(rng, N, cplx, 'noise')
        for method in ('unity', 'eigen', 'adapt'):
            ev = {'ev': 'defaultk', 'method': method, 'N': N, 'cplx': cplx, 'nw10': int(NW * 10)}
            ok0, tv = call_guard(dpss, N, NW)
            ok1, own = call_guard(pmtm, x.copy(), NW=NW, NFFT=N, method=method)
            ok2, pre = call_guard(lambda: pmtm(x.copy(), e=tv[1], v=tv[0], NFFT=N, method=method))
            ok3, cls_own = call_guard(lambda: np.array(MultiTapering(x.copy(), NW=NW, NFFT=N, method=method, scale_by_freq=False).psd))
            ok4, cls_pre = call_guard(lambda: np.array(MultiTapering(x.copy(), e=tv[1], v=tv[0], NFFT=N, method=method, scale_by_freq=False).psd))
            ev['raised'] = not (ok0 and ok1 and ok2 and ok3 and ok4)
            if not ev['raised']:
                ev['same_k'] = bool(np.shape(own[0]) == np.shape(pre[0]) and len(own[2]) == len(tv[1]))
                ev['pre_dev'] = obs.q(max(zoo.rel_dev(np.asarray(own[0]), np.asarray(pre[0])), zoo.rel_dev(np.asarray(own[1]), np.asarray(pre[1])),
                                          zoo.rel_dev(cls_own, cls_pre))) if ev['same_k'] and cls_own.shape == cls_pre.shape else obs.QCAP
            else:
                ev.update(same_k=False, pre_dev=0)
            batch.add(ev, {'N': N, 'NW': NW, 'method': method, 'cplx': cplx, 'seed': chk.seed})
    obs.validate(chk, batch, 'obs-slepian', lambda ev, cl: 'C19:OBS:%s:%s:%s:%s' % (ev['ev'], ev['method'], 'complex' if ev['cplx'] else 'real', cl),
                 lambda ev, cl: 'clause "%s" fails: %s' % (cl, ev))
    chk.sample('obs-event', batch.events[0], 1)


def run(chk):
    core.run_jobs(chk, jobs(chk))
    obs_events(chk)
    from .. import session
    session.run_for(chk, 'C19')      # Session.tla: results do not depend on earlier calls
    from .. import quiet
    quiet.run_for(chk, 'C19')      # Quiet.tla: asking for diagnostics is not an argument
    from .. import units
    units.run_for(chk, 'C19')      # Units.tla: the unit the data are expressed in is not part of the data
    from .. import carrier
    carrier.run_for(chk, 'C19')      # Carrier.tla: a sample denotes its value whatever container carries it


def replay_case(chk, sig, case):
    run(chk)
