"""X06 (specification coverage beyond the listed properties) - tools.py index functions.

ToolsIdx.tla: cshift, twosided, _swapsides and nextpow2 as index maps (permutation, period, symmetry
invariants checked by TLC); every (function, N, k) replayed.  None of them is named by a listed property
(the side conversions of C06 go through the *_2_* helpers), so a deviation here is reported under X06.
"""
import numpy as np

from .. import core, tlc
from .C06 import replay_tools_idx


def run(chk):
    rng = np.random.RandomState(600 + chk.seed)
    core.run_jobs(chk, [{'module': 'ToolsIdx', 'part': 'tools-index-functions',
                         'cfg': tlc._cfg_text(constants={'MaxN': 7 if chk.tier == 'quick' else 12},
                                              invariants=['CshiftPermutation', 'CshiftPeriod', 'TwosidedSymmetric']),
                         'replay': lambda st: replay_tools_idx(chk, st, rng)}])


def replay_case(chk, sig, case):
    run(chk)
