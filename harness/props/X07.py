"""X07 (specification coverage beyond the listed properties) - Burg internals that C13 does not name.

Criteria.tla: the two-register stop rule of criteria.Criteria (TLC: StopRule, Registers), replayed on the
real object; Burg.tla states replayed into the private second implementation burg._arburg2 when it exists.
"""
import numpy as np

from .. import core, material as M, tlc
from ..kern_util import call_guard, cmp_vec, cmp_scalar
from .C13 import criteria_job


def replay_arburg2(chk, st, cplx):
    try:
        from spectrum.burg import _arburg2
    except ImportError:
        chk.skip('no private _arburg2')
        return
    if st['phase'] != 'run' or st['status'] != 'ok' or len(st['a']) == 0:
        return
    if M.has_ovf(st['a']) or M.has_ovf(st['rho']) or M.has_ovf(st['ref']):
        chk.skip('burg-ovf')
        return
    mode = 'complex' if cplx else 'real'
    q = len(st['a'])
    xa = np.array(M.cq_seq(st['x']), dtype=complex) if cplx else np.array(M.real_list(st['x']), dtype=float)
    expA = np.array(M.cq_seq(st['a']))
    expK = np.array(M.cq_seq(st['ref']))
    expRho = float(M.rat(st['rho']))
    ok, res = call_guard(_arburg2, xa.copy(), q)
    chk.evaluations += 1
    if not ok:
        chk.violation('X07:_arburg2:%s:raises' % mode, '_arburg2 raises %r' % (res,), {'x': xa, 'order': q})
    else:
        a2, e2, ref2 = res
        bad = (cmp_vec(np.asarray(a2)[1:], expA, name='ar') or cmp_scalar(np.asarray(a2)[0], 1.0, name='a0')
               or cmp_scalar(e2, expRho, name='rho') or cmp_vec(ref2, expK, name='reflection'))
        if bad:
            chk.violation('X07:_arburg2:%s:values' % mode, '_arburg2(x=%s, %d): %s' % (xa.tolist(), q, bad), {'x': xa, 'order': q})
    chk.replayed += 1
    chk.count('arburg2-' + mode, 'replayed')


def run(chk):
    inv = ['ReflectionAtMostOne', 'StepUpIsAr', 'VarianceFormula']
    js = [criteria_job(chk)]
    for cplx, maxn, order, parts in ((False, 4, 2, 'PartsS'), (True, 3, 2, 'Parts01')):
        cfg = tlc._cfg_text(constants={'MinN': 3, 'MaxN': maxn, 'MaxOrder': order, 'Parts': '<- ' + parts, 'Complex': cplx}, invariants=inv)
        js.append({'module': 'MC_Burg', 'cfg': cfg, 'part': 'arburg2-' + ('complex' if cplx else 'real'),
                   'replay': (lambda st, c=cplx: replay_arburg2(chk, st, c))})
    core.run_jobs(chk, js)


def replay_case(chk, sig, case):
    run(chk)
