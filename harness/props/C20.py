"""C20 - every named window is a well-formed taper of the requested length.

Windows.tla: exact closed forms of the classical windows at the lengths where they are
rational (TLC checks symmetry, max <= 1, centre = 1 on the exact samples); each state is
replayed into create_window, the window_* function and the Window object for every alias.
WindowFactory.tla: the name / alias / documented-parameter decision table, every
(name, keyword) pair replayed.  Generic clauses for all 29 names and all N: ObsC20.tla.
"""
import numpy as np

from .. import core, material as M, tlc, obs
from ..kern_util import call_guard, cmp_vec

ALIASES = {'hann': ['hann', 'hanning'], 'rectangular': ['rectangular', 'rectangle'], 'bartlett': ['bartlett', 'triangular'],
           'cosine': ['cosine', 'sine']}
FUNCS = {'rectangular': 'window_rectangle', 'bartlett': 'window_bartlett', 'hann': 'window_hann', 'hamming': 'window_hamming',
         'blackman': 'window_blackman', 'blackman_harris': 'window_blackman_harris', 'nuttall': 'window_nuttall',
         'blackman_nuttall': 'window_blackman_nuttall', 'flattop': 'window_flattop', 'bartlett_hann': 'window_bartlett_hann',
         'riesz': 'window_riesz', 'parzen': 'window_parzen', 'cauchy': 'window_cauchy', 'cosine': 'window_cosine',
         'tukey': 'window_tukey'}


def params_of(name, par):
    if name == 'blackman':
        return {'alpha': par / 1000.0}
    if name == 'cauchy':
        return {'alpha': par / 1000.0}
    if name == 'flattop':
        return {'mode': 'periodic' if par == 1 else 'symmetric'}
    if name == 'tukey':
        return {'r': float(par)}
    return {}


def replay_closed_form(chk, st):
    import spectrum.window as W
    from spectrum import create_window, Window
    name, N, par = st['name'], st['N'], st['par']
    if M.has_ovf(st['w']):
        chk.skip('window-ovf')
        return
    exp = np.array([float(M.rat(v)) for v in st['w']])
    kw = params_of(name, par)
    variants = [({}, 'default')] if (not kw or (name == 'blackman' and par == 160) or (name == 'cauchy' and par == 3000)
                                      or (name == 'flattop' and par == 0)) else []
    variants.append((kw, 'explicit'))
    if name == 'tukey':
        variants = [(kw, 'explicit')]
    for alias in ALIASES.get(name, [name]):
        for kwv, tag in variants:
            case = {'name': alias, 'N': N, 'params': kwv, 'expect': exp}
            calls = [('create_window', lambda: create_window(N, alias, **kwv)),
                     ('Window.data', lambda: Window(N, alias, **kwv).data)]
            if alias == name:
                calls.append((FUNCS[name], lambda: getattr(W, FUNCS[name])(N, **kwv)))
            for cname, f in calls:
                ok, res = call_guard(f)
                chk.evaluations += 1
                if not ok:
                    chk.violation('C20:closed-form:%s:%s:raises' % (alias, cname), '%s(%d, %s, %s) raises %r' % (cname, N, alias, kwv, res), case)
                    continue
                bad = cmp_vec(np.asarray(res, dtype=float), exp, tol=1e-9, name=cname)
                if bad:
                    lenbad = np.asarray(res).shape != exp.shape
                    chk.violation('C20:closed-form:%s:%s' % (alias, 'length' if lenbad else 'values'),
                                  '%s(N=%d, %r, %s) = %s differs from the closed form %s' % (cname, N, alias, kwv, np.asarray(res).tolist(), exp.tolist()),
                                  dict(case, call=cname, observed=res))
    chk.replayed += 1
    chk.count('closed-forms', 'replayed')
    if N == 5 and name in ('hamming', 'parzen'):
        chk.sample('closed-form', {'name': name, 'N': N, 'w': st['w']}, 2)


KWVALUES = {'beta': 5.0, 'alpha': 1.7, 'mode': 'periodic', 'attenuation': 60, 'r': 0.3, 'nbar': 5, 'sll': -35,
            'norm_unknown': True, 'N2': 4}


def replay_factory(chk, st):
    import spectrum.window as W
    from spectrum import create_window, Window
    name, kw, accept = st['name'], st['kw'], st['accept']
    N = 9
    kwargs = {} if kw == 'none' else {kw: KWVALUES[kw]}
    case = {'name': name, 'kwargs': kwargs, 'accept': accept}
    ok, res = call_guard(create_window, N, name, **kwargs)
    chk.evaluations += 1
    if accept and not ok:
        chk.violation('C20:factory:%s:%s:rejects-documented' % (name, kw), 'create_window(%d, %r, %s) raises %r' % (N, name, kwargs, res), case)
    if not accept and ok:
        chk.violation('C20:factory:%s:%s:accepts-unknown' % (name, kw), 'create_window(%d, %r, %s) accepts an undocumented parameter' % (N, name, kwargs), case)
    if accept and ok:
        # forwarded exactly: same as calling the window function directly with that parameter
        fn = getattr(W, W.window_names[name])
        ok2, direct = call_guard(fn, N, **kwargs)
        if ok2:
            same = np.array_equal(np.asarray(res, dtype=float), np.asarray(direct, dtype=float), equal_nan=True)
            bad = None if same else cmp_vec(np.asarray(res, dtype=float), np.asarray(direct, dtype=float), tol=1e-12)
            if bad:
                chk.violation('C20:factory:%s:%s:not-forwarded' % (name, kw), 'create_window does not forward %s to %s: %s' % (kwargs, fn.__name__, bad), case)
        if kw != 'none' and not isinstance(KWVALUES[kw], (str, bool)):
            # a nearby value of the same parameter gives another window (the parameter is used as given, not rounded,
            # truncated or looked up in a table keyed too coarsely), whichever of the two is asked for first
            for step in ((1,) if kw == 'nbar' else (0.4, -0.4) if kw != 'r' else (0.05, -0.05)):
                near = {kw: KWVALUES[kw] + step}
                okn, wn = call_guard(create_window, N, name, **near)
                okr, again = call_guard(create_window, N, name, **kwargs)
                if okn and cmp_vec(np.asarray(wn, dtype=float), np.asarray(res, dtype=float), tol=1e-12) is None:
                    chk.violation('C20:factory:%s:%s:nearby-value-same-window' % (name, kw), '%s and %s give the same %s window' % (kwargs, near, name), dict(case, near=near))
                if okr and not np.array_equal(np.asarray(again, dtype=float), np.asarray(res, dtype=float), equal_nan=True):
                    chk.violation('C20:factory:%s:%s:depends-on-earlier-calls' % (name, kw), 'create_window(%d, %r, %s) changes after a call with %s' % (N, name, kwargs, near), dict(case, near=near))
        if accept and kw != 'none':
            # a documented parameter does not make an undocumented one acceptable
            okb, _ = call_guard(create_window, N, name, **dict(kwargs, norm_unknown=True))
            if okb:
                chk.violation('C20:factory:%s:%s:accepts-unknown-next-to-documented' % (name, kw),
                              'create_window(%d, %r, %s, norm_unknown=True) accepts the undocumented parameter' % (N, name, kwargs), case)
        if kw != 'none':
            okd, dflt = call_guard(create_window, N, name)
            if okd and cmp_vec(np.asarray(res, dtype=float), np.asarray(dflt, dtype=float), tol=1e-12) is None:
                chk.violation('C20:factory:%s:%s:parameter-ignored' % (name, kw), 'parameter %s has no effect on %s' % (kwargs, name), case)
        # aliases give identical arrays; the Window object reports the same samples
        for other in sorted(st['alias']):
            ok3, r3 = call_guard(create_window, N, other, **kwargs)
            if not ok3 or not np.array_equal(np.asarray(r3, dtype=float), np.asarray(res, dtype=float), equal_nan=True):
                chk.violation('C20:factory:alias:%s:%s' % (name, other), 'alias %s differs from %s' % (other, name), case)
        ok4, obj = call_guard(lambda: Window(N, name, **kwargs))
        if not ok4:
            chk.violation('C20:factory:%s:%s:Window-raises' % (name, kw), 'Window(%d, %r, %s) raises %r' % (N, name, kwargs, obj), case)
        else:
            d = np.asarray(obj.data, dtype=float)
            fin = np.all(np.isfinite(d)) and np.all(np.isfinite(np.asarray(res, dtype=float)))
            if fin and (cmp_vec(d, np.asarray(res, dtype=float), tol=0) is not None or obj.N != N):
                chk.violation('C20:factory:%s:Window-differs' % name, 'Window(%d, %r).data differs from create_window' % (N, name), case)
    chk.replayed += 1
    chk.count('factory', 'replayed')
    chk.count('factory', 'accept' if accept else 'reject')


def shape_params(name, rng):
    if name == 'kaiser':
        return {'beta': float(rng.uniform(0, 20))}
    if name in ('gaussian', 'poisson', 'poisson_hanning', 'cauchy'):
        return {'alpha': float(rng.uniform(0.1, 6))}
    if name == 'blackman':
        return {'alpha': float(rng.uniform(0, 0.4))}
    if name == 'tukey':
        return {'r': float(rng.choice([0, 1, rng.uniform(0, 1)]))}
    if name == 'chebwin':
        return {'attenuation': float(rng.uniform(30, 120))}
    if name == 'flattop':
        return {'mode': str(rng.choice(['symmetric', 'periodic']))}
    if name == 'taylor':
        return {'nbar': int(rng.randint(2, 8)), 'sll': float(-rng.uniform(20, 60))}
    return {}


def obs_events(chk):
    import spectrum.window as W
    from spectrum import create_window, Window
    rng = np.random.RandomState(2000 + chk.seed)
    batch = obs.Batch('ObsC20')
    names = sorted(W.window_names)
    quick = chk.tier == 'quick'
    # exhaustive small lengths: the samples themselves
    for name in names:
        for N in range(1, 65):
            ev = {'ev': 'samples', 'name': name, 'N': N, 'periodic': False}
            ok, w = call_guard(create_window, N, name)
            ev['raised'] = not ok
            if ok:
                w = np.asarray(w)
                fin = bool(np.isrealobj(w) and np.all(np.isfinite(w)))
                ev['finite'] = fin
                ev['q'] = [obs.qs(float(v), 1e-6) if np.isfinite(v) else 0 for v in np.real(w)]
            else:
                ev['finite'] = False
                ev['q'] = []
            batch.add(ev)
    # all lengths up to 512 (thorough) / a sweep (quick), sampled large N, shape parameters
    lengths = list(range(65, 513, 3 if quick else 1)) + [1000, 1001, 4096, 16384 if not quick else 2048]
    for name in names:
        for N in lengths:
            for kw in ({}, shape_params(name, rng)):
                if N > 600 and name in ('taylor',) and not kw:
                    pass
                ev = {'ev': 'summary', 'name': name, 'N': N, 'periodic': kw.get('mode') == 'periodic', 'params': str(sorted(kw.items()))}
                ok, w = call_guard(create_window, N, name, **kw)
                ev['raised'] = not ok
                if ok:
                    w = np.asarray(w)
                    fin = bool(np.isrealobj(w) and np.all(np.isfinite(w)))
                    ev['finite'] = fin
                    ev['len'] = int(len(w))
                    if fin and len(w) == N:
                        ev['sym_dev'] = obs.q(np.max(np.abs(w - w[::-1])))
                        ev['max_q'] = obs.qs(float(np.max(w)), 1e-9)
                        ev['centre_q'] = obs.qs(float(w[(N - 1) // 2]), 1e-9)
                        s = np.sum(w)
                        ev['enbw_q'] = obs.qs(float(N * np.sum(w ** 2) / s ** 2), 1e-9) if s != 0 else 0
                        if N <= 600:
                            ok2, obj = call_guard(lambda: Window(N, name, **kw))
                            ev['object_ok'] = bool(ok2 and obj.N == N and np.array_equal(np.asarray(obj.data), w)
                                                   and abs(obj.enbw - N * np.sum(w ** 2) / s ** 2) <= 1e-9 * abs(obj.enbw))
                        else:
                            ev['object_ok'] = True
                    else:
                        ev.update(sym_dev=0, max_q=0, centre_q=0, enbw_q=0, object_ok=False)
                else:
                    ev.update(finite=False, len=0, sym_dev=0, max_q=0, centre_q=0, enbw_q=0, object_ok=False)
                batch.add(ev)
                if not kw:
                    break
    # the ends of the documented parameter ranges, against the closed form evaluated independently
    import scipy.special as ss
    import scipy.signal.windows as sw

    def tukey_ref(N, r):
        x = np.linspace(0, 1, N)
        b = np.ones(N)
        if r <= 0:
            return b
        m1 = x < r / 2
        b[m1] = 0.5 * (1 + np.cos(2 * np.pi / r * (x[m1] - r / 2)))
        m2 = x >= 1 - r / 2
        b[m2] = 0.5 * (1 + np.cos(2 * np.pi / r * (x[m2] - 1 + r / 2)))
        return b

    def kaiser_ref(N, beta):
        n = np.arange(N)
        al = (N - 1) / 2.0
        arg = beta * np.sqrt(np.maximum(0.0, 1 - ((n - al) / al) ** 2))
        return ss.i0e(arg) / ss.i0e(beta) * np.exp(arg - beta)
    extremes = [('tukey', {'r': r}, tukey_ref) for r in (1e-9, 1e-6, 1e-3, 0.5, 0.99, 0.999995, 1 - 1e-9)]
    extremes += [('kaiser', {'beta': b}, kaiser_ref) for b in (0.5, 30.0, 99.0, 100.0, 101.0, 150.0, 300.0, 600.0)]
    extremes += [('taylor', {'nbar': nb, 'sll': sll}, None) for nb in (2, 8, 12, 13, 14, 16, 20, 24, np.int64(13)) for sll in (-30, -55.5)]
    for name, kw, ref in extremes:
        for N in ((16, 33) if quick else (8, 16, 33, 64, 101)):
            ev = {'ev': 'formula', 'name': name, 'N': N, 'params': str(sorted(kw.items()))}
            ok, w = call_guard(create_window, N, name, **kw)
            ev['raised'] = not ok
            if ok:
                w = np.asarray(w, dtype=float)
                exp = ref(N, list(kw.values())[0]) if ref else sw.taylor(N, nbar=int(kw['nbar']), sll=-kw['sll'], norm=True, sym=True)
                ev['len'] = int(len(w))
                ev['dev'] = obs.q(np.max(np.abs(w - exp))) if len(w) == N and np.all(np.isfinite(w)) else obs.QCAP
                ev['sym_dev'] = obs.q(np.max(np.abs(w - w[::-1]))) if np.all(np.isfinite(w)) else obs.QCAP
            else:
                ev.update(len=0, dev=0, sym_dev=0)
            batch.add(ev)
    obs.validate(chk, batch, 'obs-generic', lambda ev, cl: 'C20:OBS:%s:%s:%s' % (ev['name'], cl, 'odd' if ev['N'] % 2 else 'even'),
                 lambda ev, cl: 'window %s N=%d %s: clause "%s" fails' % (ev['name'], ev['N'], ev.get('params', ''), cl))
    chk.sample('obs-event', batch.events[40], 1)


def run(chk):
    quick = chk.tier == 'quick'
    js = [{'module': 'Windows', 'part': 'closed-forms',
           'cfg': tlc._cfg_text(constants={'MaxN': 9 if quick else 13}, invariants=['NoOverflow', 'Symmetric', 'AtMostOne', 'CentreIsOne']),
           'replay': lambda st: replay_closed_form(chk, st)},
          {'module': 'WindowFactory', 'part': 'factory',
           'cfg': tlc._cfg_text(invariants=['TwentyNineNames', 'AliasesAgree']),
           'replay': lambda st: replay_factory(chk, st)}]
    core.run_jobs(chk, js)
    obs_events(chk)
    from .. import session
    session.run_for(chk, 'C20')      # Session.tla: results do not depend on earlier calls


def replay_case(chk, sig, case):
    run(chk)
