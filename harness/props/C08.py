"""C08 - sampling-rate and scale_by_freq normalisation is uniform.

(a) Arma2Psd.tla: arma2psd against the exact lag-domain description of
    (rho/T)|B|^2/|A|^2, every coefficient vector of the bounded universe, NFFT even/odd.
(b) the protocol clause "scaled exactly once" on recorded traces of all classes
    (SpectrumTrace.tla, clause read-scaled-once) - same driver as C07.
(c) observation events (ObsC08.tla): scale_by_freq ratio, behaviour under a change of
    sampling frequency per class family, on float data and sampling in (1e-2, 1e5).
"""
import math
import random

import numpy as np

from .. import core, material as M, tlc, obs, zoo
from .. import drive_obj as D
from ..kern_util import call_guard, cmp_vec
from . import C07


# ----------------------------------------------------------------- (a) arma2psd
def eval_lags(lags, nfft):
    """sum_{d=-p..p} c_d zeta^{kd}, c_{-d} = conj(c_d), zeta = exp(-2 pi i / nfft)"""
    k = np.arange(nfft)
    c = M.cq_seq(lags)
    v = np.full(nfft, c[0], dtype=complex)
    for d in range(1, len(c)):
        z = np.exp(-2j * np.pi * k * d / nfft)
        v += c[d] * z + np.conj(c[d]) * np.conj(z)
    return v


def replay_arma2psd(chk, st, cplx):
    from spectrum import arma2psd
    if st['phase'] != 'done':
        return
    den, num, gain = st['out']
    if M.has_ovf(st['out']):
        chk.skip('arma2psd-ovf')
        return
    g = float(M.rat(gain))
    rho = float(M.rat(st['rho']))
    T = float(M.rat(st['T']))
    mode = 'complex' if cplx else 'real'
    A = np.array(M.cq_seq(st['A']), dtype=complex) if cplx else np.array(M.real_list(st['A']), dtype=float)
    B = np.array(M.cq_seq(st['B']), dtype=complex) if cplx else np.array(M.real_list(st['B']), dtype=float)
    variants = []
    if len(st['A']) and len(st['B']):
        variants.append(('arma', A, B))
    if len(st['A']):
        variants.append(('ar', A, None))
    if len(st['B']):
        variants.append(('ma', None, B))
    m = max(len(st['A']), len(st['B']))
    # every fifth state also at a long transform (past 2048, 4096 = the library's default, 8192, 16384; odd, even, power of two)
    cnt = getattr(chk, '_c08_big', 0)
    chk._c08_big = cnt + 1
    big = {[2049, 4097, 8192, 8193, 16385, 4098][(cnt // 5) % 6]} if cnt % 5 == 0 else set()
    for nfft in sorted({m + 1, m + 2, 7, 8, 12} | big):
        if nfft <= m:
            continue
        dv = eval_lags(den, nfft).real
        nv = eval_lags(num, nfft).real
        for vname, a, b in variants:
            d = dv if a is not None else np.ones(nfft)
            n = nv if b is not None else np.ones(nfft)
            if np.min(np.abs(d)) < 1e-9:
                chk.skip('arma2psd-pole-on-grid')
                continue
            exp = g * n / d
            case = {'fn': 'arma2psd', 'A': a, 'B': b, 'rho': rho, 'T': T, 'NFFT': nfft, 'expect': exp}
            # coefficient vectors as arrays or python lists (integer valued: lists of ints)
            if (nfft + len(st['A'])) % 2 and not cplx:
                a = None if a is None else [int(v) for v in a]
                b = None if b is None else [int(v) for v in b]
            elif (nfft + len(st['B'])) % 3 == 0:
                a = None if a is None else list(a)
                b = None if b is None else list(b)
            ok, res = call_guard(arma2psd, A=a, B=b, rho=rho, T=T, NFFT=nfft)
            chk.evaluations += 1
            if not ok:
                chk.violation('C08:arma2psd:%s:%s:raises' % (vname, mode), 'arma2psd raises %r' % (res,), case)
                continue
            bad = cmp_vec(res, exp, tol=1e-8, name='psd')
            if bad and nfft in big and np.shape(res) == exp.shape and np.all(np.isfinite(res)):
                # a long grid comes close to the poles (and zeros): |A|^2 and |B|^2 are computed with an absolute rounding error
                # of a few thousand eps times (sum|a_k|)^2 resp. (sum|b_k|)^2, which the division amplifies bin by bin:
                # |d psd| <= g (d|B|^2 + |B|^2/|A|^2 d|A|^2) / |A|^2
                SA2 = float(np.sum(np.abs(np.concatenate(([1.0], np.asarray(a, dtype=complex))))) ** 2) if a is not None else 0.0
                SB2 = float(np.sum(np.abs(np.concatenate(([1.0], np.asarray(b, dtype=complex))))) ** 2) if b is not None else 0.0
                allowed = 1e-8 * np.abs(exp) + 1e-12 * (g * SB2 + np.abs(exp) * SA2) / np.abs(d)
                if np.all(np.abs(np.asarray(res) - exp) <= allowed):
                    bad = None
            if bad:
                chk.violation('C08:arma2psd:%s:%s:values' % (vname, mode),
                              'arma2psd(A=%s, B=%s, rho=%s, T=%s, NFFT=%d) differs from (rho/T)|B|^2/|A|^2: %s'
                              % (a, b, rho, T, nfft, bad), dict(case, observed=res))
    chk.replayed += 1
    chk.count('arma2psd-' + mode, 'replayed')
    if len(st['A']) == 2 and len(st['B']) == 1:
        chk.sample('arma2psd-' + mode, {'A': st['A'], 'B': st['B'], 'rho': st['rho'], 'T': st['T'], 'out': st['out']}, 1)


def arma_jobs(chk):
    quick = chk.tier == 'quick'
    js = []
    for cplx in (False, True):
        consts = {'MaxP': 2, 'MaxQ': 2 if not cplx or not quick else 1, 'Parts': '<- PartsS' if (cplx or quick) else '<- PartsQ',
                  'Complex': cplx, 'Rhos': '<- RhoOne' if quick else '<- RhoSet', 'Ts': '<- TOne' if quick else '<- TSet'}
        cfg = tlc._cfg_text(constants=consts, invariants=['LagDomainExact', 'ZeroLagPositive', 'NonNegative4'])
        js.append({'module': 'MC_Arma2Psd', 'cfg': cfg, 'part': 'arma2psd-' + ('complex' if cplx else 'real'),
                   'replay': (lambda st, c=cplx: replay_arma2psd(chk, st, c))})
    return js


# ----------------------------------------------------------------- (b) protocol traces
def protocol_traces(chk):
    quick = chk.tier == 'quick'
    rng = random.Random(8000 + chk.seed)
    rec = C07.Recorder()
    for name in sorted(D.CLASSES):
        cls = D.CLASSES[name]
        for dt in ('real', 'complex'):
            refs = D.RefCache(cls)
            C07.random_walks(chk, cls, dt, rec, refs, rng, nwalks=6 if quick else 60, length=10 if quick else 30)
    C07.validate(chk, rec, 'trace-validation', clauses=('read-scaled-once',), prop='C08')
    chk.count('trace-validation', 'events', len(rec.events))


# ----------------------------------------------------------------- (c) observation events
FAMILY = {'pburg:AIC': 'divides', 'Periodogram': 'unchanged', 'pcorrelogram': 'unchanged', 'MultiTapering': 'unchanged',
          'pmusic': 'unchanged', 'pev': 'unchanged',
          'pburg': 'divides', 'pyule': 'divides', 'pcovar': 'divides', 'pmodcovar': 'divides',
          'parma': 'divides', 'pma': 'divides', 'pminvar': 'multiplies'}


def build(name, x, nfft, sampling, scale):
    import spectrum as sp
    kw = dict(NFFT=nfft, sampling=sampling, scale_by_freq=scale)
    if name == 'Periodogram':
        return sp.Periodogram(x, **kw)
    if name == 'pcorrelogram':
        return sp.pcorrelogram(x, lag=10, **kw)
    if name == 'pburg:AIC':
        return sp.pburg(x, 12, criteria='AIC', **kw)       # order selected by a criterion (usually below 12)
    if name in ('pburg', 'pyule', 'pcovar', 'pmodcovar', 'pminvar'):
        return getattr(sp, name)(x, 4, **kw)
    if name == 'parma':
        return sp.parma(x, 3, 3, 12, **kw)
    if name == 'pma':
        return sp.pma(x, 3, 10, **kw)
    if name in ('pmusic', 'pev'):
        return getattr(sp, name)(x, 8, NSIG=2, **kw)
    if name == 'MultiTapering':
        return sp.MultiTapering(x, NW=2.5, k=4, method='eigen', **kw)
    raise KeyError(name)


def rel_dev(a, b):
    a = np.asarray(a, dtype=complex)
    b = np.asarray(b, dtype=complex)
    if a.shape != b.shape or not np.all(np.isfinite(a)) or not np.all(np.isfinite(b)):
        return float('inf')
    s = np.max(np.abs(b))
    return float(np.max(np.abs(a - b)) / s) if s > 0 else float('inf')


AMPS = (1.0, 1e-5, 1e4)


def obs_events(chk):
    rng = np.random.RandomState(8100 + chk.seed)
    batch = obs.Batch('ObsC08')
    reps = 1 if chk.tier == 'quick' else 6
    for name in sorted(FAMILY):
        for dt in ('real', 'complex'):
            for rep in range(reps):
                n = int(rng.choice([32, 48, 64]))
                t = np.arange(n)
                x = np.cos(0.9 * t) + 0.5 * rng.randn(n)
                if dt == 'complex':
                    x = x * np.exp(0.4j * t) + 0.5j * rng.randn(n)
                # every clause is a ratio of two estimates of the same data: the amplitude of the data is free
                amp = AMPS[getattr(chk, '_c08_amp', 0) % len(AMPS)]
                chk._c08_amp = getattr(chk, '_c08_amp', 0) + 1
                x = x * amp
                nfft = int(rng.choice([n, 64, 65, 128]))
                s1 = float(10 ** rng.uniform(-2, 5))
                s2 = float(10 ** rng.uniform(-2, 5))
                ev = {'ev': 'normalisation', 'cls': name, 'family': FAMILY[name], 'dt': dt, 'nfft': nfft, 'amp': repr(amp)}
                try:
                    pF = build(name, x, nfft, s1, False)
                    pT = build(name, x, nfft, s1, True)
                    p2 = build(name, x, nfft, s2, False)
                    vF, vT, v2 = np.array(pF.psd), np.array(pT.psd), np.array(p2.psd)
                    df = s1 / nfft          # the requested NFFT (what the object reads back is checked by df_dev)
                    ev['raised'] = False
                    ev['scale_dev'] = obs.q(rel_dev(vT, vF * (2 * math.pi / df)))
                    ev['scale_twice_dev'] = obs.q(rel_dev(vT, vF * (2 * math.pi / df) ** 2))
                    ev['scale_none_dev'] = obs.q(rel_dev(vT, vF))
                    ev['samp_unchanged_dev'] = obs.q(rel_dev(v2, vF))
                    ev['samp_divides_dev'] = obs.q(rel_dev(v2, vF * (s1 / s2)))
                    ev['samp_multiplies_dev'] = obs.q(rel_dev(v2, vF * (s2 / s1)))
                    f1 = np.array(pF.frequencies())
                    f2 = np.array(p2.frequencies())
                    ev['axis_dev'] = obs.q(rel_dev(f2 * (s1 / s2), f1)) if len(f1) > 1 else 0
                    ev['df_dev'] = obs.q(max(abs(pF.df - s1 / nfft) / (s1 / nfft), abs(pT.df - s1 / nfft) / (s1 / nfft), 0.0 if (pF.NFFT == nfft and pT.NFFT == nfft) else 1.0))
                    ev['len_ok'] = bool(len(f1) == len(vF) == len(f2) == len(v2) == len(vT))
                    live = 0.0
                    for s3 in (s2, s1 * (1 + 3e-6)):
                        pl = build(name, x, nfft, s1, True)
                        pl.psd
                        pl.sampling = s3
                        fr = build(name, x, nfft, s3, True)
                        live = max(live, rel_dev(np.array(pl.psd), np.array(fr.psd)), rel_dev(np.array(pl.frequencies()), np.array(fr.frequencies())) if len(f1) > 1 else 0.0,
                                   abs(pl.df - fr.df) / fr.df, abs(pl.sampling - s3) / s3)
                    ev['live_dev'] = obs.q(live)
                except Exception as e:  # noqa
                    ev['raised'] = True
                    for k in ('scale_dev', 'scale_twice_dev', 'scale_none_dev', 'samp_unchanged_dev',
                              'samp_divides_dev', 'samp_multiplies_dev', 'axis_dev', 'df_dev'):
                        ev[k] = 0
                    ev['len_ok'] = False
                    ev['exc'] = repr(e)[:100]
                batch.add(ev, {'cls': name, 'dt': dt, 'n': n, 'nfft': nfft, 's1': s1, 's2': s2, 'seed': chk.seed})
    # the functional periodogram family and the Daniell class: scale_by_freq multiplies by 2*pi/df with
    # df = sampling/NFFT (NFFT different from the data length included)
    import spectrum as sp
    for rep in range(4 if chk.tier == 'quick' else 24):
        n = int(rng.choice([32, 48]))
        dt = ('real', 'complex')[rep % 2]
        x = zoo.signal(rng, n, dt == 'complex', 'noise')
        nfft = [n, 64, 65, 2 * n][rep % 4]
        s1 = float(10 ** rng.uniform(-2, 5))
        forms = {
            'speriodogram': lambda sc: sp.speriodogram(x.copy(), NFFT=nfft, detrend=False, sampling=s1, scale_by_freq=sc, window='hann'),
            'DaniellPeriodogram': lambda sc: sp.DaniellPeriodogram(x.copy(), 2, NFFT=nfft, detrend=None, sampling=s1, scale_by_freq=sc)[0],
            'pdaniell': lambda sc: np.array(sp.pdaniell(x.copy(), 2, NFFT=nfft, sampling=s1, scale_by_freq=sc).psd),
        }
        for fname, f in forms.items():
            ev = {'ev': 'normalisation', 'cls': fname, 'family': 'unchanged', 'dt': dt, 'nfft': nfft}
            ok1, vF = call_guard(f, False)
            ok2, vT = call_guard(f, True)
            ev['raised'] = not (ok1 and ok2)
            df = s1 / nfft
            if ok1 and ok2:
                ev['scale_dev'] = obs.q(rel_dev(vT, np.asarray(vF) * (2 * math.pi / df)))
                ev['scale_twice_dev'] = obs.q(rel_dev(vT, np.asarray(vF) * (2 * math.pi / df) ** 2))
                ev['scale_none_dev'] = obs.q(rel_dev(vT, vF))
            else:
                ev.update(scale_dev=0, scale_twice_dev=0, scale_none_dev=0)
            ev.update(samp_unchanged_dev=0, samp_divides_dev=0, samp_multiplies_dev=0, axis_dev=0, df_dev=0, len_ok=True)
            batch.add(ev, {'form': fname, 'dt': dt, 'n': n, 'nfft': nfft, 's1': s1, 'seed': chk.seed})
    obs.validate(chk, batch, 'obs-normalisation',
                 lambda ev, cl: 'C08:%s:%s%s' % (ev['cls'], cl, (':twice' if cl == 'scaled-exactly-once' and ev['scale_twice_dev'] < 1000
                                                                  else ':never' if cl == 'scaled-exactly-once' and ev['scale_none_dev'] < 1000 else '')),
                 lambda ev, cl: '%s (%s data, NFFT=%d) fails "%s": %s' % (ev['cls'], ev['dt'], ev['nfft'], cl, ev))
    chk.sample('obs-normalisation', batch.events[0], 1)


def run(chk):
    core.run_jobs(chk, arma_jobs(chk))
    protocol_traces(chk)
    obs_events(chk)
    # "changing the sampling frequency rescales the frequency axis proportionally": the axis sweep of C06
    # (ObsC06.tla: every entry is its bin times sampling/NFFT) over NFFT up to 1024 x 13 sampling rates
    from .C06 import axis_events
    axis_events(chk, prefix='C08', stride=4)


def replay_case(chk, sig, case):
    run(chk)
