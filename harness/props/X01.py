"""X01 (specification coverage beyond the listed properties) - Daniell's smoothed periodogram.

Daniell.tla models DaniellPeriodogram as the decimating moving average it is (two nested loops, one
input bin per step); TLC checks MeanOfWindow, ParityKept, Partition, Bounded, IdentityAtZero on every
small periodogram.  Every final state is replayed into the real DaniellPeriodogram with the periodogram
stage replaced by the state's vector (so that the smoothing stage is bound exactly), and the class
pdaniell is compared with the function on float data.

Deviation modelled, not repaired (outside the listed properties): the guard `n > 0` excludes the DC bin
from every average, so DaniellPeriodogram(data, 0) returns nan at index 0 instead of the original PSD.
"""
import numpy as np

from .. import core, material as M, tlc
from ..kern_util import call_guard, cmp_vec


def replay_state(chk, st):
    import spectrum.periodogram as per
    if st['phase'] != 'done':
        return
    psd = np.array([float(v) for v in st['psd']])
    P = st['P']
    exp = np.array([float('nan') if (v[1] == -1) else float(M.rat(v)) for v in st['out']])
    real_fn = per.speriodogram
    per.speriodogram = lambda *a, **kw: psd.copy()          # bind the smoothing stage to the state's vector
    try:
        ok, res = call_guard(per.DaniellPeriodogram, np.zeros(4), P, sampling=2.0)
    finally:
        per.speriodogram = real_fn
    chk.evaluations += 1
    case = {'psd': psd, 'P': P, 'expect': exp}
    if not ok:
        chk.violation('X01:daniell:raises', 'DaniellPeriodogram raises %r on psd=%s, P=%d' % (res, psd.tolist(), P), case)
    else:
        out, freq = res
        out = np.asarray(out, dtype=float)
        same = out.shape == exp.shape and np.array_equal(np.isnan(out), np.isnan(exp)) and \
            (np.allclose(out[~np.isnan(exp)], exp[~np.isnan(exp)], rtol=1e-12, atol=0) if np.any(~np.isnan(exp)) else True)
        if not same:
            chk.violation('X01:daniell:values:%s' % ('odd' if len(psd) % 2 else 'even'),
                          'DaniellPeriodogram on psd=%s, P=%d returns %s, the model says %s' % (psd.tolist(), P, out.tolist(), exp.tolist()), case)
        elif len(freq) != len(out):
            chk.violation('X01:daniell:frequency-length', 'frequency vector has %d entries for %d values' % (len(freq), len(out)), case)
    chk.replayed += 1
    chk.count('daniell', 'replayed')
    if len(psd) == 5 and P == 1:
        chk.sample('daniell', {'psd': st['psd'], 'P': P, 'out': st['out']}, 1)


def class_vs_function(chk):
    """pdaniell(...).psd is DaniellPeriodogram(...)[0] with the same arguments (real and complex float data)."""
    import spectrum as sp
    rng = np.random.RandomState(4100 + chk.seed)
    for rep in range(12 if chk.tier == 'quick' else 80):
        n = int(rng.choice([16, 33, 64]))
        cplx = bool(rep % 2)
        x = rng.randn(n) + (1j * rng.randn(n) if cplx else 0)
        P = int(rng.randint(0, 5))
        nfft = int(rng.choice([n, 64, 65, 128]))
        kw = dict(NFFT=nfft, sampling=float(rng.choice([1.0, 4.0])), scale_by_freq=bool(rep % 3 == 0), window='hann', detrend=None)
        ok1, f = call_guard(lambda: sp.DaniellPeriodogram(x.copy(), P, **kw)[0])
        ok2, c = call_guard(lambda: np.array(sp.pdaniell(x.copy(), P, **kw).psd))
        chk.evaluations += 1
        if ok1 != ok2 or (ok1 and (np.shape(f) != np.shape(c) or not np.array_equal(np.asarray(f), np.asarray(c), equal_nan=True))):
            chk.violation('X01:pdaniell:class-vs-function', 'pdaniell(P=%d, %s) differs from DaniellPeriodogram' % (P, kw), {'x': x, 'P': P, 'kw': kw})
    chk.count('daniell', 'class-vs-function')


def run(chk):
    quick = chk.tier == 'quick'
    cfg = tlc._cfg_text(constants={'MaxN': 5 if quick else 7, 'MaxP': 2 if quick else 3, 'Vals': '<- ValsS' if quick else '<- ValsS', 'DcIncluded': False},
                        invariants=['MeanOfWindow', 'ParityKept', 'Partition', 'Bounded', 'IdentityAtZero', 'DcNeverUsed'])
    core.run_jobs(chk, [{'module': 'MC_Daniell', 'cfg': cfg, 'part': 'daniell', 'replay': lambda st: replay_state(chk, st)}])
    class_vs_function(chk)
    chk.notes.append('named deviation: the DC bin is excluded from every average (n > 0); DaniellPeriodogram(data, 0) is nan at index 0')


def replay_case(chk, sig, case):
    run(chk)
