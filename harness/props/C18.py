"""C18 - Slepian tapers are orthonormal, ordered and maximally concentrated.

No exact model exists (irrational eigenproblem, C routine): ObsC18.tla holds the domain and the clause table; the driver
logs, per call of dpss, quantised residuals against the DEFINING sinc kernel (built from its formula), against an
independent eigen-solver for N <= 256 (the oracle the statement itself names), and the discrete facts (shape, ordering,
symmetry, sign convention).  Level: exploration.
"""
import numpy as np

from .. import core, obs
from ..kern_util import call_guard, np_int


def kernel(N, W):
    n = np.arange(N)
    d = n[:, None] - n[None, :]
    with np.errstate(all='ignore'):
        return np.where(d == 0, 2.0 * W, np.sin(2 * np.pi * W * d) / (np.pi * np.where(d == 0, 1, d)))


def event(dpss, N, NW, k, idx=0):
    ev = {'ev': 'dpss', 'N': int(N), 'nw100': int(round(NW * 100)), 'k': 0 if k is None else int(k)}
    # a whole-number half-bandwidth as one writes it: 4, numpy.int64(4) or 4.0
    nw_arg = [NW, int(NW), np.int64(int(NW))][idx % 3] if float(NW) == int(NW) else NW
    ok, res = call_guard(dpss, np_int(N, idx), nw_arg, None if k is None else np_int(k, idx + 1))
    ev['raised'] = not ok
    blank = dict(rows=0, cols=0, nlam=0, orth_q=0, in_range=False, noninc=False, has_kernel=False, conc_q=0, resid_q=0,
                 has_solver=False, lead_q=0, parity_q=0, signs_ok=False)
    if not ok:
        ev.update(blank)
        return ev
    try:
        V = np.asarray(res[0], dtype=float)
        lam = np.asarray(res[1], dtype=float).ravel()
        assert V.ndim == 2
    except Exception:
        ev.update(blank)
        ev['raised'] = True
        return ev
    kk = V.shape[1]
    ev.update(rows=int(V.shape[0]), cols=int(kk), nlam=int(len(lam)))
    if V.shape[0] != N or len(lam) != kk or kk < 1 or not np.all(np.isfinite(V)) or not np.all(np.isfinite(lam)):
        ev.update({k_: v for k_, v in blank.items() if k_ not in ('rows', 'cols', 'nlam')})
        ev['rows'] = -1 if not (np.all(np.isfinite(V)) and np.all(np.isfinite(lam))) else ev['rows']
        return ev
    ev['orth_q'] = obs.q(np.max(np.abs(V.T @ V - np.eye(kk))))
    ev['in_range'] = bool(np.all(lam > 0) and np.all(lam <= 1 + 1e-9))
    ev['noninc'] = bool(kk == 1 or np.max(np.diff(lam)) <= 1e-9)
    ev['has_kernel'] = bool(N <= 1024)
    if N <= 1024:
        A = kernel(N, NW / float(N))
        AV = A @ V
        ev['resid_q'] = obs.q(np.max(np.abs(AV - V * lam)))
        ev['conc_q'] = obs.q(np.max(np.abs(np.sum(V * AV, axis=0) / np.sum(V * V, axis=0) - lam)))
    else:
        A = None
        ev['resid_q'] = ev['conc_q'] = 0
    ev['has_solver'] = bool(N <= 256)
    ev['lead_q'] = obs.q(np.max(np.abs(np.linalg.eigvalsh(A)[::-1][:kk] - lam))) if N <= 256 else 0
    par, signs = 0.0, True
    for j in range(kk):
        v = V[:, j]
        par = max(par, float(np.max(np.abs(v - (-1) ** j * v[::-1]))))
        if j % 2 == 0:
            signs = signs and bool(np.sum(v) > 0)
        else:
            nz = np.nonzero(np.abs(v) > 1e-6 * np.max(np.abs(v)))[0]
            signs = signs and bool(len(nz) and v[nz[0]] > 0)
    ev['parity_q'] = obs.q(par)
    ev['signs_ok'] = bool(signs)
    return ev


def run(chk):
    from spectrum import dpss
    quick = chk.tier == 'quick'
    rng = np.random.RandomState(1800 + chk.seed)
    batch = obs.Batch('ObsC18')
    sizes = [8, 9, 16, 33, 64, 127, 256, 1000, 1024, 4096] if quick else list(range(8, 65)) + [100, 127, 128, 255, 256, 500, 1000, 1023, 1024, 2048, 4095, 4096]
    nws = [1, 1.5, 2, 2.5, 3, 3.5, 4, 5.5, 8, 2.3, 3.4, 1.25] if quick else [1, 1.25, 1.5, 1.9, 2, 2.3, 2.5, 2.75, 3, 3.4, 3.5, 4, 4.45, 4.5, 5, 5.5, 6, 6.5, 7, 7.5, 8]
    idx = 0
    for N in sizes:
        for NW in nws:
            if not (1 <= NW < N / 2.0):
                continue
            ks = sorted({1, int(np.floor(2 * NW)), max(1, int(NW))}) + [None]
            if quick and N > 300:
                ks = [int(np.floor(2 * NW)), None][idx % 2:idx % 2 + 1]
            for k in ks:
                idx += 1
                ev = event(dpss, N, float(NW), k, idx)
                chk.evaluations += 1
                batch.add(ev, {'N': N, 'NW': NW, 'k': k, 'seed': chk.seed})
    # a second call with the same arguments returns the same tapers (nothing cached is handed out and modified)
    try:
        a = dpss(64, 2.5, 4)          # (not through call_guard: the caller overwrites this result on purpose)
        if np.asarray(a[0]).flags.writeable:
            np.asarray(a[0])[...] = 0
    except Exception:
        pass
    ev = event(dpss, 64, 2.5, 4)
    batch.add(ev, {'N': 64, 'NW': 2.5, 'k': 4, 'after_overwriting_an_earlier_result': True})
    obs.validate(chk, batch, 'obs-dpss', lambda ev, cl: 'C18:OBS:%s:%s' % (cl, 'default-k' if ev['k'] == 0 else 'k'),
                 lambda ev, cl: 'dpss(N=%d, NW=%s, k=%s): clause "%s" fails: %s' % (ev['N'], ev['nw100'] / 100.0, ev['k'] or None, cl, ev))
    chk.sample('obs-event', batch.events[0], 1)
    # evidence at the level claimed in MANIFEST (exploration): distinct in-domain configurations that returned tapers
    chk.level = 'exploration'
    chk.distinct_nontrivial = len({(e['N'], e['nw100'], e['k']) for e in batch.events if not e['raised'] and e['cols'] >= 1})
    chk.rule = ('one call of dpss per (N, NW, k) of a fixed grid (sizes 8..4096, half-integer and other NW, k in {1, floor(2NW), mid, default}); '
                'a case is counted when it is a distinct (N, NW, k) triple inside the domain of ObsC18.tla for which dpss returned at least one taper')
    chk.assumptions.append('the sinc kernel is built from its formula in double precision; the eigen-solver of the "leading" clause is numpy.linalg.eigvalsh (N <= 256); kernel clauses up to N = 1024')


def replay_case(chk, sig, case):
    run(chk)
