"""C01 - the periodogram equals the windowed-DFT definition and conserves power.

Periodogram.tla (on Correlation.tla): the periodogram of windowed data y in the lag domain
(biased autocorrelation of y), exact for every NFFT; TLC checks lag-domain = direct DFT,
Parseval and real symmetry on the 4-point grid.  Each state (a small y) is replayed, for
every window name w, with data x = y/w (so that x*w = y) into speriodogram (1-D and 2-D),
the Periodogram class and - rectangular window - CORRELOGRAMPSD (Wiener-Khinchin), at
even / odd / prime / power-of-two NFFT.  Float data up to N = 512: ObsC01.tla.
"""
import numpy as np

from .. import core, material as M, tlc, obs
from ..kern_util import call_guard, cmp_vec, np_int


def window_names():
    from spectrum.window import window_names as wn
    return sorted(wn.keys())


_WCACHE = {}


def window(N, name):
    key = (N, name)
    if key not in _WCACHE:
        from spectrum import Window
        ok, w = call_guard(lambda: np.array(Window(N, name).data, dtype=float))
        _WCACHE[key] = w if ok and len(w) == N and np.all(np.isfinite(w)) else None
    return _WCACHE[key]


def eval_lags(c, nfft):
    k = np.arange(nfft)
    v = np.full(nfft, c[0], dtype=complex)
    for d in range(1, len(c)):
        z = np.exp(-2j * np.pi * k * d / nfft)
        v += c[d] * z + np.conj(c[d]) * np.conj(z)
    return v.real


def onelen(n):
    return n // 2 + 1


def nffts(N, idx):
    base = [N, N + 1, 2 * N - 1, 2 * N, 7, 8, 11, 16]
    base = sorted({n for n in base if n >= N and n >= 1})
    return base


def data_for(y, w):
    """x with x*w = y, or None when y is not representable under this window"""
    x = np.ones(len(y), dtype=y.dtype)
    for n in range(len(y)):
        if abs(w[n]) < 1e-9:
            if y[n] != 0:
                return None
        else:
            x[n] = y[n] / w[n]
    return x


def replay_state(chk, st, cplx, names, counter):
    from spectrum import speriodogram, Periodogram, CORRELOGRAMPSD
    if st['phase'] != 'done' or len(st['y']) != 0:
        return
    mode = 'complex' if cplx else 'real'
    N = len(st['x'])
    y = np.array(M.cq_seq(st['x']), dtype=complex) if cplx else np.array(M.real_list(st['x']), dtype=float)
    c = np.array(M.cq_seq(st['out']['biased']))
    counter[0] += 1
    quick = chk.tier == 'quick'
    # quick tier: a rotating subset of windows per state (every name is used on many states)
    if quick:
        k = counter[0]
        use = [names[(k * 5 + i * 7) % len(names)] for i in range(4)] + ['rectangular']
    else:
        use = names
    nf = nffts(N, counter[0])
    if quick:
        nf = [nf[(counter[0] + i) % len(nf)] for i in range(3)]
    for name in dict.fromkeys(use):
        w = window(N, name)
        if w is None:
            chk.skip('window-unavailable:%s' % name)
            continue
        x = data_for(y, w)
        if x is None:
            chk.count('periodogram-' + mode, 'window-zero-pattern-mismatch')
            continue
        for nfft in nf:
            two = eval_lags(c, nfft)
            exp = two if cplx else two[:onelen(nfft)]
            case = {'y': y, 'window': name, 'x': x, 'NFFT': nfft, 'expect': exp}
            # entry paths: the float / complex array, and - when x happens to be integer valued (e.g. hann at
            # N = 5 gives x = 2y) - the same samples as a python list of ints and as an integer array
            entries = [('array', x.copy())]
            if not cplx and np.all(x == np.round(x)):
                entries += [('list-int', [int(v) for v in x]), ('int64', x.astype(np.int64))]
            for ename, xin in entries:
                ok, res = call_guard(speriodogram, xin, NFFT=np_int(nfft, N + nfft), detrend=False, scale_by_freq=False, window=name)
                chk.evaluations += 1
                if not ok:
                    chk.violation('C01:speriodogram:%s:raises:%s' % (mode, ename), 'speriodogram raises %r' % (res,), case)
                else:
                    bad = cmp_vec(res, exp, tol=1e-7, name='psd')
                    if bad:
                        lenbad = np.asarray(res).shape != exp.shape
                        chk.violation('C01:speriodogram:%s:%s:%s' % (mode, 'bins' if lenbad else 'values', ename),
                                      'speriodogram(x as %s, NFFT=%d, window=%s) with x*w=%s is not |DFT(x*w)|^2/N: %s' % (ename, nfft, name, y.tolist(), bad),
                                      dict(case, entry=ename, observed=res))
                if ename != 'array':
                    okc, vc = call_guard(lambda: np.array(Periodogram(xin, window=name, NFFT=nfft, scale_by_freq=False, detrend=None).psd))
                    if not okc or cmp_vec(vc, exp, tol=1e-7):
                        chk.violation('C01:Periodogram:%s:values:%s' % (mode, ename),
                                      'Periodogram(x as %s, window=%s, NFFT=%d).psd is not |DFT(x*w)|^2/N' % (ename, name, nfft), dict(case, entry=ename))
            ok, obj = call_guard(lambda: Periodogram(x.copy(), window=name, NFFT=nfft, scale_by_freq=False, detrend=None))
            if ok:
                ok, v = call_guard(lambda: np.array(obj.psd))
            if not ok:
                chk.violation('C01:Periodogram:%s:raises' % mode, 'Periodogram raises', case)
            else:
                bad = cmp_vec(v, exp, tol=1e-7, name='Periodogram.psd')
                if bad:
                    chk.violation('C01:Periodogram:%s:values' % mode,
                                  'Periodogram(x, window=%s, NFFT=%d).psd is not |DFT(x*w)|^2/N: %s' % (name, nfft, bad), dict(case, observed=v))
                # the same live object after its window / NFFT were re-assigned: still the definition
                # (reference: a freshly constructed object, itself checked against the spec above)
                other = use[(use.index(name) + 1) % len(use)] if name in use else 'hamming'
                nf2 = nf[(nf.index(nfft) + 1) % len(nf)]
                for attr, val in (('window', other), ('NFFT', nf2)):
                    if window(N, other) is None:
                        continue
                    ok1, _ = call_guard(setattr, obj, attr, val)
                    ok2, live = call_guard(lambda: np.array(obj.psd))
                    ok3, fresh = call_guard(lambda: np.array(Periodogram(x.copy(), window=obj.window, NFFT=obj.NFFT, scale_by_freq=False, detrend=None).psd))
                    if ok1 and ok2 and ok3:
                        badl = cmp_vec(live, fresh, tol=1e-9, name='psd after %s assignment' % attr)
                        if badl:
                            chk.violation('C01:Periodogram:%s:live-object:%s' % (mode, attr),
                                          'Periodogram object after assigning %s=%r no longer returns |DFT(x*w)|^2/N for its attributes: %s'
                                          % (attr, val, badl), dict(case, assigned={attr: val}))
            # Wiener-Khinchin: rectangular window, lag N-1, biased, NFFT >= 2N-1
            if name == 'rectangular' and nfft >= 2 * N - 1 and N >= 2:
                for method in ('xcorr', 'CORRELATION'):
                    ok, res = call_guard(CORRELOGRAMPSD, x.copy(), lag=N - 1, window='rectangular', norm='biased', NFFT=nfft,
                                         correlation_method=method)
                    if not ok:
                        chk.violation('C01:CORRELOGRAMPSD:%s:raises' % mode, 'CORRELOGRAMPSD raises %r' % (res,), case)
                    else:
                        bad = cmp_vec(res, two, tol=1e-7, name='correlogram')
                        if bad:
                            chk.violation('C01:CORRELOGRAMPSD:%s:%s' % (mode, method),
                                          'correlogram (rectangular, lag N-1, biased, NFFT=%d) differs from the periodogram: %s' % (nfft, bad),
                                          dict(case, expect=two, observed=res))
        # 2-D input: column-wise, one shared window
        # (also a single column.  A 1 x C matrix is NOT used: the code treats it as C records of one sample, its docstring
        # speaks of rows - no property pins that convention)
        if N >= 2 and counter[0] % 3 == 0:
            cols = [y, y[::-1].copy(), 2 * y][:1 if counter[0] % 6 == 3 else 3]
            nfft = nf[0]
            xs2 = [data_for(cy, w) for cy in cols]
            if any(v is None for v in xs2):
                continue
            X = np.array(xs2).T
            ok, res = call_guard(speriodogram, X.copy(), NFFT=nfft, detrend=False, scale_by_freq=False, window=name)
            if not ok:
                chk.violation('C01:speriodogram-2d:%s:raises' % mode, 'speriodogram (2-D) raises %r' % (res,), {'X': X, 'window': name})
            else:
                # expected columns: periodogram of each column's windowed data
                expcols = []
                for j, cy in enumerate(cols):
                    # the lag coefficients of column 0 come from the spec; the others are its
                    # reversal / scaling: reversal conjugates c_d, scaling multiplies by 4
                    if j == 0:
                        cc = c
                    elif j == 1:
                        cc = np.conj(c)
                    else:
                        cc = 4 * c
                    e = eval_lags(cc, nfft)
                    expcols.append(e if cplx else e[:onelen(nfft)])
                E = np.array(expcols).T
                # (a single column may come back with or without its unit axis)
                bad = cmp_vec(np.squeeze(res) if len(cols) == 1 else res, np.squeeze(E) if len(cols) == 1 else E, tol=1e-7, name='psd-2d')
                if bad:
                    chk.violation('C01:speriodogram-2d:%s:values' % mode,
                                  'speriodogram on a %dx%d matrix (window=%s, NFFT=%d) is not column-wise: %s' % (N, len(cols), name, nfft, bad),
                                  {'X': X, 'window': name, 'NFFT': nfft, 'expect': E, 'observed': res})
                chk.count('periodogram-' + mode, '2d-calls')
    chk.replayed += 1
    chk.count('periodogram-' + mode, 'replayed')
    if N == 3 and counter[0] % 50 == 0:
        chk.sample('periodogram-' + mode, {'y': st['x'], 'lag_coefficients': st['out']['biased']}, 1)


def jobs(chk):
    quick = chk.tier == 'quick'
    names = window_names()
    inv = ['LagDomainExact', 'Parseval4', 'RealSymmetric4', 'ZeroLagIsPower']
    specs = [(False, 4 if quick else 5, 'PartsS' if quick else 'PartsQ'), (True, 3 if quick else 4, 'PartsS')]
    js = []
    for cplx, n, parts in specs:
        cfg = tlc._cfg_text(constants={'MaxN': n, 'MaxM': 0, 'Parts': '<- ' + parts, 'Complex': cplx}, invariants=inv)
        counter = [0]
        js.append({'module': 'MC_Periodogram', 'cfg': cfg, 'part': 'periodogram-' + ('complex' if cplx else 'real'),
                   'replay': (lambda st, c=cplx, k=counter: replay_state(chk, st, c, names, k))})
    return js


def obs_events(chk):
    from spectrum import speriodogram, Periodogram, CORRELOGRAMPSD
    rng = np.random.RandomState(100 + chk.seed)
    batch = obs.Batch('ObsC01')
    names = window_names()
    reps = 40 if chk.tier == 'quick' else 400
    for rep in range(reps):
        N = int(rng.choice([1, 2, 5, 16, 33, 64, 127, 256, 512])) if rep >= 3 else [256, 257, 300][rep]     # (first: sizes past 255)
        kind = int(rng.randint(4))
        if kind == 0:
            x = rng.randn(N) + 1j * rng.randn(N)
        elif kind == 1:
            x = np.full(N, 3.0 + 0j)                       # constant
        elif kind == 2:
            x = (rng.randint(-5, 6, N) + 1j * rng.randint(-5, 6, N)).astype(complex)
        else:
            x = (rng.randn(N) + 1j * rng.randn(N)) * 10.0 ** rng.uniform(-6, 6, N)   # large dynamic range
        name = names[rep % len(names)]
        nfft = int(rng.choice([N, N + 1, 2 * N + 1, 64, 97, 128]))
        nfft = max(nfft, N)
        w = window(N, name)
        ev = {'ev': 'parseval', 'N': N, 'nfft': nfft, 'window': name, 'kind': kind}
        if w is None:
            ev['raised'] = False
            ev['skip'] = True
            ev.update(parseval_dev=0, len_ok=True, class_dev=0, real_prefix_dev=0)
        else:
            ev['skip'] = False
            ok, p = call_guard(speriodogram, x.copy(), NFFT=np_int(nfft, rep), detrend=False, scale_by_freq=False, window=name)
            ok2, obj = call_guard(lambda: np.array(Periodogram(x.copy(), window=name, NFFT=nfft, scale_by_freq=False, detrend=None).psd))
            xr = x.real.copy()
            ok3, pr = call_guard(speriodogram, xr.copy(), NFFT=nfft, detrend=False, scale_by_freq=False, window=name)
            ok4, pc = call_guard(speriodogram, xr.astype(complex), NFFT=nfft, detrend=False, scale_by_freq=False, window=name)
            ev['raised'] = not (ok and ok2 and ok3 and ok4)
            if not ev['raised']:
                power = np.sum(np.abs(x * w) ** 2) / N
                sc = max(power, 1e-300)
                ev['parseval_dev'] = obs.q(abs(np.mean(p) - power) / sc) if power > 0 else obs.q(abs(np.mean(p)))
                ev['len_ok'] = bool(len(p) == nfft and len(pr) == nfft // 2 + 1)
                ev['class_dev'] = obs.q(np.max(np.abs(obj - p)) / max(np.max(np.abs(p)), 1e-300)) if obj.shape == p.shape else obs.QCAP
                ev['real_prefix_dev'] = obs.q(np.max(np.abs(pr - pc[:nfft // 2 + 1])) / max(np.max(np.abs(pc)), 1e-300)) if len(pr) == nfft // 2 + 1 else obs.QCAP
            else:
                ev.update(parseval_dev=0, len_ok=False, class_dev=0, real_prefix_dev=0)
        batch.add(ev, {'N': N, 'nfft': nfft, 'window': name, 'kind': kind, 'seed': chk.seed, 'rep': rep})
        # Wiener-Khinchin on float data
        if 2 <= N <= 128 or rep < 3:
            nf2 = int(2 * N - 1 + rng.randint(0, 5))
            ev = {'ev': 'wk', 'N': N, 'nfft': nf2, 'kind': kind}
            ok, p = call_guard(speriodogram, x.copy(), NFFT=nf2, detrend=False, scale_by_freq=False, window='rectangular')
            ok2, cg = call_guard(CORRELOGRAMPSD, x.copy(), lag=N - 1, window='rectangular', norm='biased', NFFT=nf2)
            ev['raised'] = not (ok and ok2)
            ev['wk_dev'] = obs.q(np.max(np.abs(cg - p)) / max(np.max(np.abs(p)), 1e-300)) if ok and ok2 and len(cg) == len(p) else (obs.QCAP if ok and ok2 else 0)
            batch.add(ev, {'N': N, 'nfft': nf2, 'kind': kind, 'seed': chk.seed, 'rep': rep})
    # the definition at EVERY bin, with an error model per bin: a weak component next to a strong one must come out
    # (large-dynamic-range data).  Reference: direct DFT in extended precision.  A bin may deviate by what an
    # amplitude error of 16 * eps * log2(NFFT) * sqrt(NFFT) * ||x*w|| explains (the worst-case bound of an FFT for one
    # bin, constant 16; measured on the unchanged tree: at most 7% of it), plus 1e-12 relative.
    eps = np.finfo(float).eps
    for rep in range(12 if chk.tier == 'quick' else 120):
        N = [64, 33, 16, 48][rep % 4]
        nfft = [N, N, 2 * N + 1, N + 3][(rep // 4) % 4]
        n = np.arange(N)
        cplx = bool(rep % 2)
        kb = 1 + rep % 7
        if rep % 3 == 0:
            x = 1e6 + 1e-3 * np.cos(2 * np.pi * kb * n / N)                   # strong constant + weak on-grid tone
        elif rep % 3 == 1:
            x = 1e5 * np.cos(2 * np.pi * 3 * n / N) + 1e-4 * np.cos(2 * np.pi * (3 + kb) * n / N + 0.4)
        else:
            x = rng.randn(N) * 10.0 ** rng.uniform(-6, 6, N)
        if cplx:
            x = x + 1j * (1e-3 * np.sin(2 * np.pi * kb * n / N) if rep % 3 != 2 else rng.randn(N))
        name = 'rectangular' if rep % 3 != 2 else names[rep % len(names)]
        w = window(N, name)
        if w is None:
            continue
        y = (np.asarray(x) * w).astype(np.clongdouble)
        kk = np.arange(nfft)
        X = np.array([np.sum(y * np.exp(-2j * np.pi * np.longdouble(k) * n.astype(np.longdouble) / nfft)) for k in kk])
        P = (np.abs(X) ** 2 / N).astype(float)
        delta = 16 * eps * max(1.0, np.log2(nfft)) * np.sqrt(nfft) * float(np.sqrt(np.sum(np.abs(y) ** 2)))
        allowed = (2 * np.abs(X).astype(float) * delta + delta ** 2) / N + 1e-12 * P
        exp = P if cplx else P[:nfft // 2 + 1]
        allowed = allowed if cplx else allowed[:nfft // 2 + 1]
        for form, f in (('function', lambda: speriodogram(x.copy(), NFFT=nfft, detrend=False, scale_by_freq=False, window=name)),
                        ('class', lambda: np.array(Periodogram(x.copy(), window=name, NFFT=nfft, scale_by_freq=False, detrend=None).psd))):
            ev = {'ev': 'bins', 'N': N, 'nfft': nfft, 'window': name, 'form': form, 'cplx': cplx}
            ok, p = call_guard(f)
            ev['raised'] = not ok
            ev['len_ok'] = bool(ok and np.shape(p) == exp.shape)
            # ratio of the worst bin error to what the error model allows, in 1e-3 units (<= 1000 passes)
            ev['bin_ratio'] = obs.q(np.max(np.abs(np.asarray(p) - exp) / allowed), 1e-3) if ev['len_ok'] else 0
            batch.add(ev, {'N': N, 'nfft': nfft, 'window': name, 'form': form, 'rep': rep, 'seed': chk.seed, 'x': x})
    # long records (past 4096 samples, the library's default NFFT; the thorough tier also past 8192 and 16384), NFFT prime /
    # even / a power of two: the definition at a sample of bins (first, last, around the middle, random), same error model
    for N, nfft in ([(4300, 4327), (4099, 8192)] if chk.tier == 'quick' else [(4300, 4327), (4099, 8192), (4300, 4300), (8200, 8209), (16400, 16411)]):
        n = np.arange(N)
        for cplx in (False, True):
            x = rng.randn(N) + np.cos(2 * np.pi * 0.123 * n)
            if cplx:
                x = x + 1j * rng.randn(N)
            name = ['hamming', 'rectangular'][int(cplx)]
            w = window(N, name)
            y = (np.asarray(x) * w).astype(np.clongdouble)
            last = nfft - 1 if cplx else nfft // 2
            kk = np.array(sorted(set([0, 1, 2, last, last - 1, last // 2, last // 2 + 1] + [int(v) for v in rng.randint(0, last + 1, 24)])))
            X = np.array([np.sum(y * np.exp(-2j * np.pi * np.longdouble(k) * n.astype(np.longdouble) / nfft)) for k in kk])
            P = (np.abs(X) ** 2 / N).astype(float)
            delta = 16 * eps * max(1.0, np.log2(nfft)) * np.sqrt(nfft) * float(np.sqrt(np.sum(np.abs(y) ** 2)))
            allowed = (2 * np.abs(X).astype(float) * delta + delta ** 2) / N + 1e-12 * P
            want_len = nfft if cplx else nfft // 2 + 1
            for form, f in (('function', lambda: speriodogram(x.copy(), NFFT=nfft, detrend=False, scale_by_freq=False, window=name)),
                            ('class', lambda: np.array(Periodogram(x.copy(), window=name, NFFT=nfft, scale_by_freq=False, detrend=None).psd))):
                ev = {'ev': 'bins', 'N': N, 'nfft': nfft, 'window': name, 'form': form, 'cplx': cplx}
                ok, p = call_guard(f)
                ev['raised'] = not ok
                ev['len_ok'] = bool(ok and np.shape(p) == (want_len,))
                ev['bin_ratio'] = obs.q(np.max(np.abs(np.asarray(p)[kk] - P) / allowed), 1e-3) if ev['len_ok'] else 0
                batch.add(ev, {'N': N, 'nfft': nfft, 'window': name, 'form': form, 'cplx': cplx, 'seed': chk.seed})
    obs.validate(chk, batch, 'obs-large-N', lambda ev, cl: 'C01:OBS:%s:%s' % (ev['ev'], cl),
                 lambda ev, cl: 'N=%d NFFT=%d %s: clause "%s" fails: %s' % (ev['N'], ev['nfft'], ev.get('window', ''), cl, ev))
    chk.sample('obs-event', batch.events[0], 1)


def run(chk):
    core.run_jobs(chk, jobs(chk))
    obs_events(chk)
    from .. import session
    session.run_for(chk, 'C01')      # Session.tla: results do not depend on earlier calls
    from .. import units
    units.run_for(chk, 'C01')      # Units.tla: the unit the data are expressed in is not part of the data
    from .. import carrier
    carrier.run_for(chk, 'C01')      # Carrier.tla: a sample denotes its value whatever container carries it


def replay_case(chk, sig, case):
    run(chk)
