"""X08 (specification coverage beyond the listed properties) - the lazy response cache of `Window`.

WindowResponse.tla: compute_response(norm=, NFFT=), `response` and `frequencies` as three actions on the
private cache (empty | len, normed).  TLC checks NeverTruncates, ReadsPairUp, EmptyOnlyAtStart and the two
action properties (reads never recompute, the lazy fill uses the defaults); every reachable state carries
the history that led to it, which is replayed on a real `Window` and compared with the projected state:
length of `response`, length and end points of `frequencies`, and the peak of the response (0 dB when
normalised, 20 log10(sum w) for a positive window otherwise).  No listed property names the response of a
window (C20 speaks of samples, length and ENBW), so a deviation is reported under X08.
"""
import math

import numpy as np

from .. import core, tlc
from ..kern_util import call_guard

NAMES = ('hamming', 'rectangular', 'blackman_harris', 'kaiser')   # positive sum, non-negative samples: the peak is at DC and equals sum(w)


def replay_state(chk, st):
    from spectrum import Window
    N, onorm, cache, hist = st['N'], st['onorm'], st['cache'], st['hist']
    if not hist:
        chk.count('window-response', 'initial')
        return
    name = NAMES[(N + len(hist)) % len(NAMES)]
    case = {'N': N, 'name': name, 'norm': onorm, 'hist': [dict(h) for h in hist], 'expect': dict(cache)}
    ok, w = call_guard(lambda: Window(N, name, norm=onorm))
    if not ok:
        raise core.MachineryError('Window(%d, %r) cannot be built: %r' % (N, name, w))
    lens = []
    for h in hist:
        if h['op'] == 'compute':
            kw = {}
            if h['norm'] != 'default':
                kw['norm'] = h['norm'] == 'true'
            if h['nfft'] != 0:
                kw['NFFT'] = h['nfft']
            ok, res = call_guard(lambda: w.compute_response(**kw))
            lens.append(None)
        elif h['op'] == 'response':
            ok, res = call_guard(lambda: w.response)
            lens.append(len(res) if ok else None)
        else:
            ok, res = call_guard(lambda: w.frequencies)
            lens.append(len(res) if ok else None)
        if not ok:
            chk.violation('X08:window-response:raises', '%s raises %r after %s' % (h['op'], res, case['hist']), case)
            return
    chk.replayed += 1
    chk.count('window-response', 'replayed')
    with np.errstate(divide='ignore'):
        ok1, resp = call_guard(lambda: np.asarray(w.response))
        ok2, freq = call_guard(lambda: np.asarray(w.frequencies))
    if not (ok1 and ok2):
        chk.violation('X08:window-response:raises', 'reading the response raises after %s' % case['hist'], case)
        return
    if lens[-1] is not None and lens[-1] != st['obs']:
        chk.violation('X08:window-response:read-length', 'the last read returned %d points, the model says %d' % (lens[-1], st['obs']), case)
    if len(resp) != cache['len']:
        chk.violation('X08:window-response:length', 'response has %d points, the model says %d' % (len(resp), cache['len']), case)
    if len(freq) != len(resp):
        chk.violation('X08:window-response:pairing', 'frequencies has %d points, response %d' % (len(freq), len(resp)), case)
    elif len(freq) >= 2 and (freq[0] != -0.5 or freq[-1] != 0.5):
        chk.violation('X08:window-response:axis', 'frequencies span [%r, %r], not [-0.5, 0.5]' % (freq[0], freq[-1]), case)
    peak = float(np.max(resp))
    exp = 0.0 if cache['normed'] else 20.0 * math.log10(float(np.sum(w.data)))
    if not abs(peak - exp) <= 1e-9 * max(1.0, abs(exp)):
        chk.violation('X08:window-response:%s' % ('normalised' if cache['normed'] else 'raw'),
                      'peak of the response is %r dB, the model (normed=%s) says %r' % (peak, cache['normed'], exp), case)
    chk.evaluations += 1


def run(chk):
    quick = chk.tier == 'quick'
    ns = {1, 5, 64, 2049} if quick else {1, 2, 3, 5, 8, 63, 64, 1024, 2047, 2048, 2049, 3000}
    nffts = {0, 4, 100, 4096} if quick else {0, 1, 4, 63, 64, 65, 100, 2047, 2048, 2049, 4096, 6001}
    cfg = tlc._cfg_text(constants={'Ns': ns, 'NFFTs': nffts, 'MaxOps': 3 if quick else 4},
                        invariants=['TypeOK', 'NeverTruncates', 'ReadsPairUp', 'EmptyOnlyAtStart'],
                        properties=['ReadsDoNotRecompute', 'LazyFillUsesDefaults'])
    core.run_jobs(chk, [{'module': 'WindowResponse', 'cfg': cfg, 'part': 'window-response',
                         'replay': lambda st: replay_state(chk, st)}])


def replay_case(chk, sig, case):
    run(chk)
