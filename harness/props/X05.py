"""X05 (specification coverage beyond the listed properties) - Spectrum.power().

PowerAttr.tla (on SidesConv.tla): power() after every sequence of sides assignments; with scaling on it
is independent of the layout, with scaling off it is sum(psd) * len(psd) (layout dependent - a behaviour
of the code the model names).  Every state is replayed on a real Spectrum object.
"""
import math

import numpy as np

from .. import core, tlc
from ..kern_util import call_guard


def replay_state(chk, st):
    n, dt, b, sides, hist, vec = st['n'], st['dt'], st['b'], st['sides'], st['hist'], st['vec']
    default = 'onesided' if dt == 'real' else 'twosided'
    ln = len(vec) if not hist else None
    # the original vector in the default layout
    orig = np.zeros((n // 2 + 1 if n % 2 == 0 else (n + 1) // 2) if dt == 'real' else n)
    orig[b - 1] = 2.0
    for scaled in (False, True):
        sampling = 4.0
        from spectrum import Spectrum
        data = np.arange(1.0, max(n, 2) + 1) + (1j if dt == 'complex' else 0)
        p = Spectrum(data, NFFT=n, sampling=sampling, scale_by_freq=scaled)
        df = sampling / n
        p.psd = orig * (2 * math.pi / df if scaled else 1.0)      # a stored vector (assignment does not rescale)
        if p.NFFT != n or bool(p.scale_by_freq) != scaled:
            raise core.MachineryError('cannot prepare the object')
        ok = True
        for s in hist:
            ok, res = call_guard(setattr, p, 'sides', s)
            if not ok:
                break
        if not ok:
            continue
        ok, pw = call_guard(p.power)
        chk.evaluations += 1
        exp = float(sum(vec)) if scaled else float(sum(vec) * len(vec))
        case = {'n': n, 'dt': dt, 'basis': b, 'hist': list(hist), 'scaled': scaled, 'expect': exp}
        if not ok or abs(pw - exp) > 1e-9 * max(1.0, abs(exp)):
            chk.violation('X05:power:%s:%s' % ('scaled' if scaled else 'unscaled', sides),
                          'power() = %r after sides assignments %s on NFFT=%d, the model says %r' % (pw, list(hist), n, exp), case)
    chk.replayed += 1
    chk.count('power', 'replayed')


def run(chk):
    quick = chk.tier == 'quick'
    cfg = tlc._cfg_text(constants={'MaxN': 8 if quick else 12, 'MaxHist': 2 if quick else 3},
                        invariants=['PowerPreserved', 'ScaledPowerLayoutFree', 'UnscaledPowerIsSumTimesLength'])
    core.run_jobs(chk, [{'module': 'PowerAttr', 'cfg': cfg, 'part': 'power', 'replay': lambda st: replay_state(chk, st)}])


def replay_case(chk, sig, case):
    run(chk)
