"""C12 - Yule-Walker models are stable and match the data autocorrelation.

YuleWalker.tla = Correlation.tla (biased) followed by LevFn.tla; TLC checks stability,
autocorrelation matching, the least-squares normal equations and nesting for every
non-zero small data vector; every solved state is replayed into aryule, pyule, lpc and
the corrmtx least-squares problem.  N up to 200 / orders up to 30: ObsC12.tla.
"""
import numpy as np

from .. import core, material as M, tlc, obs
from ..kern_util import fresh, call_guard, cmp_vec, cmp_scalar, entry_variants, live_object_dev, np_int


def replay_state(chk, st, cplx):
    from spectrum import aryule, pyule, lpc, corrmtx
    if st['phase'] != 'solved':
        return
    mode = 'complex' if cplx else 'real'
    if M.has_ovf(st['sol']):
        chk.skip('yw-ovf')
        return
    N = st['out']['N']
    vals = M.cq_seq(st['x']) if cplx else M.real_list(st['x'])
    counter = getattr(chk, '_c12_counter', 0)
    chk._c12_counter = counter + 1
    variants = entry_variants(vals, cplx, counter, full=chk.tier != 'quick')
    xs = [np.array(vals, dtype=complex if cplx else float)]
    for p in range(1, N):
        s = st['sol'][p - 1]
        expA = np.array(M.cq_seq(s['A']))
        expK = np.array(M.cq_seq(s['ref']))
        expP = float(M.rat(s['P']))
        for ename, x, tol in variants:
            case = {'x': x, 'entry': ename, 'order': p, 'expect': {'A': expA, 'P': expP, 'k': expK}}
            ok, res = call_guard(aryule, fresh(x), np_int(p, counter + p), norm='biased')
            chk.evaluations += 1
            if not ok:
                chk.violation('C12:aryule:%s:raises:%s' % (mode, ename), 'aryule raises %r on non-zero data (%s input)' % (res, ename), case)
                continue
            A, P, k = res
            bad = cmp_vec(A, expA, tol=tol, name='ar') or cmp_scalar(P, expP, tol=tol, name='variance') or cmp_vec(k, expK, tol=tol, name='reflection')
            if bad:
                chk.violation('C12:aryule:%s:values:%s' % (mode, ename),
                              'aryule(x=%s, order=%d) is not the Yule-Walker solution of the biased autocorrelation: %s'
                              % (np.asarray(x).tolist(), p, bad), dict(case, observed={'A': A, 'P': P, 'k': k}))
            if not (np.real(P) > 0 and np.all(np.abs(k) < 1)):
                chk.violation('C12:aryule:%s:unstable' % mode, 'aryule returns |k|>=1 or P<=0 for x=%s' % (np.asarray(x).tolist(),), case)
        xa = np.asarray(xs[-1])
        # the estimator class exposes the same coefficients
        # the class exposes the same coefficients whatever the NFFT (larger, equal or smaller than the record)
        for nfft in sorted({16, N, max(p + 1, N - 1)}):
            ok, obj = call_guard(lambda: pyule(xa.copy(), p, norm='biased', NFFT=nfft))
            if ok:
                ok, _ = call_guard(lambda: obj.psd)
            if not ok:
                chk.violation('C12:pyule:%s:raises' % mode, 'pyule raises %r' % (obj if not ok else _,), {'x': xa, 'order': p, 'NFFT': nfft})
            else:
                bad = cmp_vec(obj.ar, expA, name='pyule.ar') or cmp_vec(obj.reflection, expK, name='pyule.reflection')
                if bad:
                    chk.violation('C12:pyule:%s:values%s' % (mode, ':NFFT<N' if nfft < N else ''),
                                  'pyule(x=%s, %d, NFFT=%d): %s' % (xa.tolist(), p, nfft, bad), {'x': xa, 'order': p, 'NFFT': nfft})
        # least squares on the 'autocorrelation' data matrix
        ok, X = call_guard(corrmtx, xa.copy(), p, 'autocorrelation')
        if ok:
            X = np.asarray(X)
            sol = np.linalg.lstsq(-X[:, 1:], X[:, 0], rcond=None)[0]
            bad = cmp_vec(sol, expA, tol=1e-7, name='least-squares')
            if bad:
                chk.violation('C12:least-squares:%s' % mode, 'least squares on corrmtx(x, %d, autocorrelation) differs from Yule-Walker: %s' % (p, bad),
                              {'x': xa, 'order': p})
        # lpc (real data): same coefficients
        if not cplx:
            for ename, xin, tol in entry_variants(xa, False, counter + p, full=True):
                if isinstance(xin, list):
                    continue                      # lpc needs an array (it uses ndarray methods)
                ok, res = call_guard(lpc, xin.copy(), np_int(p, counter + p + 1))
                if not ok:
                    chk.violation('C12:lpc:raises:%s' % ename, 'lpc raises %r' % (res,), {'x': xa, 'order': p, 'entry': ename})
                else:
                    bad = cmp_vec(np.asarray(res[0]), expA.real, tol=max(tol, 1e-7) if tol < 1e-6 else 1e-4, name='lpc')
                    if bad:
                        chk.violation('C12:lpc:values:%s' % ename, 'lpc(x=%s as %s, %d): %s' % (xa.tolist(), ename, p, bad), {'x': xa, 'order': p, 'entry': ename})
    if N >= 4:
        xl = np.asarray(xs[-1])
        ok, dev = call_guard(live_object_dev, lambda **kw: pyule(xl.copy(), **dict({'order': 2, 'NFFT': 8, 'norm': 'biased'}, **kw)),
                             [('ar_order', 1, 'order'), ('NFFT', 9, 'NFFT'), ('NFFT', 3, 'NFFT'), ('sampling', 2.0, 'sampling'), ('ar_order', 2, 'order')],
                             outputs=('psd', 'ar', 'reflection'))
        if not ok or (dev is not None and dev > 1e-7):
            chk.violation('C12:pyule:%s:live-object' % mode, 'pyule after re-assigning ar_order / NFFT / sampling differs from a fresh object (%r)' % (dev,),
                          {'x': xl})
    chk.replayed += 1
    chk.count('yulewalker-' + mode, 'replayed')
    if N == 4:
        chk.sample('yulewalker-' + mode, {'x': st['x'], 'sol': st['sol']}, 1)


def jobs(chk):
    quick = chk.tier == 'quick'
    inv = ['StableModel', 'MatchesAutocorrelation', 'LeastSquares', 'Nested']
    js = []
    for cplx, n, parts in ((False, 5 if quick else 6, 'PartsS' if quick else 'PartsQ'), (True, 3 if quick else 4, 'PartsS')):
        cfg = tlc._cfg_text(spec='YSpec', constants={'MaxN': n, 'MaxM': 0, 'Parts': '<- ' + parts, 'Complex': cplx}, invariants=inv)
        js.append({'module': 'MC_YuleWalker', 'cfg': cfg, 'part': 'yulewalker-' + ('complex' if cplx else 'real'),
                   'replay': (lambda st, c=cplx: replay_state(chk, st, c))})
    return js


def biased_acf(x, maxlag):
    n = len(x)
    return np.array([np.sum(x[k:] * np.conj(x[:n - k])) / n for k in range(maxlag + 1)])


def levinson_ref(r, p):
    """Levinson recursion in extended precision -> (a[1..p], P, k, smallest P met on the way)"""
    r = np.asarray(r, dtype=np.clongdouble)
    a = np.zeros(0, dtype=np.clongdouble)
    P = r[0].real
    ks = []
    pmin = P
    for m in range(1, p + 1):
        acc = r[m] + np.sum(a * r[m - 1:0:-1]) if m > 1 else r[m]
        k = -acc / P
        a = np.concatenate((a + k * np.conj(a[::-1]), [k])) if m > 1 else np.array([k], dtype=np.clongdouble)
        P = P * (1 - (k * np.conj(k)).real)
        pmin = min(pmin, P)
        ks.append(k)
    return a, P, np.array(ks), pmin


def obs_events(chk):
    from spectrum import aryule, lpc
    rng = np.random.RandomState(1200 + chk.seed)
    batch = obs.Batch('ObsC12')
    reps = 40 if chk.tier == 'quick' else 400
    # every (length, datatype) combination first (lengths on both sides of any size-dependent path), then random ones
    sizes = [3, 5, 8, 16, 33, 64, 127, 128, 129, 200, 257, 520, 1030]
    grid = [(N, c, None) for N in sizes for c in (False, True)]
    # strongly predictable records (first reflection coefficient of modulus > 0.99): ramp, slow tone
    grid += [(N, c, kd) for N in (64, 200) for c in (False, True) for kd in (4, 5)]
    # a smooth pulse that starts and ends near zero (the prediction error falls to 1e-9 of the power while the reflection
    # coefficients are still of order 0.1), and a fast decaying transient (products of late samples underflow)
    grid += [(200, c, kd) for c in (False, True) for kd in (6, 7)] + [(64, False, 6), (180, True, 7)]
    for rep in range(reps + len(grid)):
        if rep < len(grid):
            N, cplx, kind_fixed = grid[rep]
        else:
            N = int(rng.choice(sizes))
            cplx = bool(rng.randint(2))
            kind_fixed = None
        p = int(rng.randint(1, min(N - 1, 30) + 1))
        kind = rng.randint(6) if kind_fixed is None else kind_fixed
        t = np.arange(N)
        if kind == 6:
            x = np.sin(np.pi * (t + 1.0) / (N + 1)) ** 2
            p = 4 + rep % 5
        elif kind == 7:
            x = 0.1 ** t * (1.0 + 0.3 * np.cos(0.5 * t))
            p = 1 + rep % 6
        elif kind == 4:
            x = t + 1.0 + 0.01 * rng.randn(N)
            p = min(p, 6)
        elif kind == 5:
            x = np.cos(0.02 * t + 0.1) + 1e-3 * rng.randn(N)
            p = min(p, 6)
        elif kind == 0:
            x = rng.randn(N)
        elif kind == 1:
            x = np.cos(0.6 * t) + 0.5 * np.cos(1.7 * t + 1) + 0.2 * rng.randn(N)
        elif kind == 2:
            x = 0.05 * t + rng.randn(N)            # trend
        else:
            x = rng.randint(-3, 4, N).astype(float)
            x[0] = 1.0
        if cplx:
            if kind in (6, 7):
                x = x * np.exp(0.2j * t)
            else:
                x = x + 1j * rng.randn(N) * ((0.5 if kind < 3 else 0) if kind != 3 else 0) * (1 if kind < 4 else 0) + (1j * rng.randint(-2, 3, N) if kind == 3 else 0) + (1e-3j * rng.randn(N) if kind >= 4 else 0)
        ev = {'ev': 'yw', 'N': N, 'p': p, 'cplx': cplx, 'kind': int(kind)}
        ok, res = call_guard(aryule, x.copy(), p, norm='biased')
        ev['raised'] = not ok
        if ok:
            A, P, k = res
            r = biased_acf(x, p)
            a = np.concatenate(([1.0], A))
            T = np.array([[r[i - j] if i >= j else np.conj(r[j - i]) for j in range(p + 1)] for i in range(p + 1)])
            rhs = np.zeros(p + 1, dtype=complex)
            rhs[0] = P
            ev['yw_dev'] = obs.q(np.max(np.abs(T @ a - rhs)) / abs(r[0]))
            ev['maxroot_ppm'] = obs.q(np.max(np.abs(np.roots(a))), 1e-6)
            ev['maxk_ppm'] = obs.q(np.max(np.abs(k)), 1e-6)
            ev['ppos'] = bool(np.real(P) > 0)
            ev['lens'] = bool(len(A) == p and len(k) == p)
            if len(A) == p and len(k) == p:
                xl = np.asarray(x, dtype=np.clongdouble)
                rl = np.array([np.sum(xl[m:] * np.conj(xl[:N - m])) / N for m in range(p + 1)])
                ar_, Pr_, kr_, pmin = levinson_ref(rl, p)
                allow = 1e-12 * float(rl[0].real / pmin) + 1e-9
                dev = max(float(np.max(np.abs(np.asarray(k) - kr_.astype(complex)))), abs(float(np.real(P)) - float(Pr_)) / float(Pr_) if Pr_ > 0 else 0.0)
                ev['k_ratio'] = obs.q(dev / allow, 1e-3)
            if not cplx and p <= N - 1:
                ok2, l = call_guard(lpc, x.copy(), p)
                # (two routes to the same autocorrelation: they agree as far as the conditioning of the record allows)
                slack = max(1.0, (allow / 1e-9) if 'k_ratio' in ev else 1.0)
                ev['lpc_dev'] = obs.q(np.max(np.abs(np.asarray(l[0]) - A.real)) / max(1.0, np.max(np.abs(A))) / slack) if ok2 else obs.QCAP
            else:
                ev['lpc_dev'] = 0
        else:
            ev.update(yw_dev=0, maxroot_ppm=0, maxk_ppm=0, ppos=False, lens=False, lpc_dev=0)
        batch.add(ev, {'N': N, 'p': p, 'cplx': cplx, 'kind': int(kind), 'seed': chk.seed, 'rep': rep})
    # two Yule-Walker objects alive together, one per normalisation: the biased one is still the biased model
    from spectrum import pyule
    for cplx in (False, True):
        N, p = 24, 8
        t = np.arange(N)
        x = np.cos(0.6 * t) + 0.5 * np.cos(1.7 * t + 1) + 0.2 * rng.randn(N) + (0.3j * rng.randn(N) if cplx else 0)

        def both():
            pb = pyule(x.copy(), p, norm='biased', NFFT=64)
            pu = pyule(x.copy(), p, norm='unbiased', NFFT=64)
            pb.psd
            try:
                pu.psd
            except Exception:
                pass
            return np.asarray(pb.ar)
        ok, arb = call_guard(both)
        ok2, ref = call_guard(aryule, x.copy(), p, norm='biased')
        ev = {'ev': 'yw', 'N': N, 'p': p, 'cplx': cplx, 'kind': 9, 'raised': not (ok and ok2), 'yw_dev': 0, 'maxroot_ppm': 0, 'maxk_ppm': 0,
              'ppos': True, 'lens': True, 'lpc_dev': 0}
        if ok and ok2:
            a = np.concatenate(([1.0], arb))
            ev['yw_dev'] = obs.q(np.max(np.abs(np.asarray(arb) - np.asarray(ref[0]))) / max(1.0, np.max(np.abs(ref[0]))))
            ev['maxroot_ppm'] = obs.q(np.max(np.abs(np.roots(a))), 1e-6)
        batch.add(ev, {'N': N, 'p': p, 'cplx': cplx, 'kind': 'two pyule objects with different norm alive together', 'seed': chk.seed})
    obs.validate(chk, batch, 'obs-large-N', lambda ev, cl: 'C12:OBS:%s:%s' % (cl, 'complex' if ev['cplx'] else 'real'),
                 lambda ev, cl: 'aryule N=%d order=%d: clause "%s" fails: %s' % (ev['N'], ev['p'], cl, ev))
    chk.sample('obs-event', batch.events[0], 1)


def run(chk):
    core.run_jobs(chk, jobs(chk))
    obs_events(chk)
    from .. import session
    session.run_for(chk, 'C12')      # Session.tla: results do not depend on earlier calls
    from .. import units
    units.run_for(chk, 'C12')      # Units.tla: the unit the data are expressed in is not part of the data
    from .. import carrier
    carrier.run_for(chk, 'C12')      # Carrier.tla: a sample denotes its value whatever container carries it


def replay_case(chk, sig, case):
    run(chk)
