"""C02 - every estimator puts spectral values on the frequency axis it reports.

ClassLayout.tla: expected NFFT / default layout / number of values / bin of each entry for
every (datatype, N, NFFT argument); each configuration is replayed on all twelve classes
(psd, frequencies(), NFFT, sides, real and finite).  Tone clause: ObsC02.tla holds the
tolerance table (exact / one bin / taper bandwidth / MA exempt); the driver synthesises
on-grid tones (positive and negative bins, real sinusoids) in 1e-3 noise and logs where
each class peaks on its own reported axis.
"""
import numpy as np

from .. import core, tlc, obs, zoo
from ..kern_util import call_guard

SAMPLINGS = (1.0, 8.0, 0.5)


def nfft_py(arg):
    return None if arg == 0 else ('nextpow2' if arg == 1 else int(arg))


def _pyplot():
    try:
        import matplotlib
        matplotlib.use('Agg')
        import matplotlib.pyplot as plt
        return plt
    except Exception:
        return None


_PLOT = [None]


def replay_layout(chk, st, data):
    if _PLOT[0] is None:
        _PLOT[0] = _pyplot() or False
    dt, N, arg, nfft, sides, ln, bins = (st[k] for k in ('dt', 'N', 'arg', 'nfft', 'sides', 'len', 'bins'))
    sampling = SAMPLINGS[(N + arg) % 3]
    # complex data: also the real samples declared complex (complex dtype, zero imaginary part) as an array
    # and as a python list - the datatype is what the caller declares, not what the values look like
    inputs = [('', data[(dt, N)])]
    if dt == 'complex':
        inputs += [(':zero-imag', data[('real', N)].astype(complex)), (':zero-imag-list', [complex(v) for v in data[('real', N)]])]
    else:
        inputs += [(':list', [float(v) for v in data[('real', N)]])]
    for name in zoo.CLASSES:
      for tag, x in inputs:
        case = {'cls': name, 'dt': dt + tag, 'N': N, 'NFFT_arg': arg, 'expect': {'NFFT': nfft, 'sides': sides, 'len': ln}}
        ok, obj = call_guard(zoo.build, name, x.copy() if hasattr(x, 'copy') and not isinstance(x, list) else list(x), nfft_py(arg), sampling)
        chk.evaluations += 1
        if ok:
            ok, psd = call_guard(lambda: np.array(obj.psd))
        if not ok:
            chk.violation('C02:layout:%s:%s:raises' % (name, dt), '%s(N=%d, NFFT=%r, %s data) raises %r' % (name, N, nfft_py(arg), dt, obj if not isinstance(obj, object) else psd if not ok else ''), case)
            continue
        par = 'odd' if nfft % 2 else 'even'
        f = np.array(obj.frequencies())
        if obj.NFFT != nfft or obj.sides != sides:
            chk.violation('C02:layout:%s:%s:%s:attributes' % (name, dt, par),
                          '%s reports NFFT=%s sides=%s after computing, expected NFFT=%d sides=%s' % (name, obj.NFFT, obj.sides, nfft, sides), case)
        if len(psd) != ln or len(f) != ln:
            chk.violation('C02:layout:%s:%s:%s:length' % (name, dt, par),
                          '%s (NFFT=%d, %s data): %d PSD values, %d frequencies, expected %d' % (name, nfft, dt, len(psd), len(f), ln), case)
            continue
        expf = np.array(bins, dtype=float) * sampling / nfft
        if np.max(np.abs(f - expf)) > 1e-9 * sampling:
            chk.violation('C02:layout:%s:%s:%s:axis' % (name, dt, par), '%s frequencies() are not k*sampling/NFFT' % name, case)
        if np.iscomplexobj(psd) or not np.all(np.isfinite(psd)):
            chk.violation('C02:layout:%s:%s:%s:real-finite' % (name, dt, par), '%s psd is not real and finite' % name, case)
        # an explicit second computation of the same object puts the same values on the same axis
        ok2, psd2 = call_guard(lambda: (obj(), np.array(obj.psd))[1])
        if not ok2 or psd2.shape != psd.shape or np.max(np.abs(psd2 - psd)) > 1e-9 * np.max(np.abs(psd)) or len(obj.frequencies()) != ln:
            chk.violation('C02:layout:%s:%s:%s:recompute' % (name, dt, par), '%s: a second computation of the same object changes the values / the axis' % name, case)
        # looking at the object (plot with another layout) does not change what it reports afterwards
        if _PLOT[0] and name in ('Periodogram', 'pburg', 'pmusic') and tag == '':
            other = 'centerdc' if dt == 'complex' else 'twosided'
            okp, _r = call_guard(lambda: (obj.plot(sides=other), _PLOT[0].close('all')))
            if okp:
                okq, psd3 = call_guard(lambda: np.array(obj.psd))
                if not okq or obj.sides != sides or len(psd3) != ln or len(obj.frequencies()) != ln:
                    chk.violation('C02:layout:%s:%s:%s:changed-by-plot' % (name, dt, par),
                                  '%s: after plot(sides=%r) the object reports sides=%s, %d values, %d frequencies (expected %s, %d)'
                                  % (name, other, obj.sides, len(psd3) if okq else -1, len(obj.frequencies()), sides, ln), case)
            # ... nor does any other way of looking at it (normalised plot, plot in dB off / on)
            for kwp in ({'norm': True}, {'norm': True, 'sides': other}):
                okp, _r = call_guard(lambda: (obj.plot(**kwp), _PLOT[0].close('all')))
                okq, psd4 = call_guard(lambda: np.array(obj.psd))
                if okp and (not okq or psd4.shape != psd.shape or np.max(np.abs(psd4 - psd)) > 1e-12 * np.max(np.abs(psd))):
                    chk.violation('C02:layout:%s:%s:%s:changed-by-plot' % (name, dt, par),
                                  '%s: after plot(%s) the object no longer reports the values it reported before' % (name, kwp), case)
    chk.replayed += 1
    chk.count('layout', 'replayed')
    if arg == 1:
        chk.sample('layout', st, 1)


def layout_job(chk):
    quick = chk.tier == 'quick'
    rng = np.random.RandomState(200 + chk.seed)
    lengths = (32, 33) if quick else (32, 33, 48, 51)
    args = (0, 1, 40, 41, 64, 65) if quick else (0, 1, 40, 41, 51, 64, 65, 96, 127, 128)
    data = {}
    for N in lengths:
        data[('real', N)] = zoo.signal(rng, N, False, 'tones')
        data[('complex', N)] = zoo.signal(rng, N, True, 'tones')
    cfg = tlc._cfg_text(constants={'Lengths': set(lengths), 'NfftArgs': set(args)},
                        invariants=['LengthRule', 'BinsAreGrid', 'OneSidedBelowNyquist'])
    return {'module': 'ClassLayout', 'cfg': cfg, 'part': 'layout', 'replay': lambda st: replay_layout(chk, st, data)}


def tone_events(chk):
    rng = np.random.RandomState(250 + chk.seed)
    batch = obs.Batch('ObsC02')
    quick = chk.tier == 'quick'
    confs = [(48, 64), (48, 48), (47, 63), (64, 128)] if quick else [(48, 64), (48, 48), (47, 63), (64, 128), (33, 65), (64, 65), (50, 100)]
    # long records / long transforms (past 2048 and 4096 = the library's default NFFT; past 8192 in the thorough tier): two tones each
    long_confs = [(4200, 4201)] if quick else [(2100, 2100), (4200, 4201), (8300, 8400)]
    for N, nfft in confs + long_confs:
        n = np.arange(N)
        ks = sorted(set([3, nfft // 4, nfft // 2 - 3, -5, -(nfft // 3)] + ([int(rng.randint(2, nfft // 2 - 2))] if not quick else [])))
        if (N, nfft) in long_confs:
            ks = [nfft // 4 + 1, -(nfft // 3)]
        for k in ks:
            for dt in ('complex', 'real'):
                if dt == 'real' and (k < 4 or k > nfft // 2 - 4):
                    continue
                sampling = float(rng.choice(SAMPLINGS))
                noise = 1e-3 * (rng.randn(N) + (1j * rng.randn(N) if dt == 'complex' else 0))
                x = (np.exp(2j * np.pi * k * n / nfft) if dt == 'complex' else np.cos(2 * np.pi * k * n / nfft + 0.3)) + noise
                # (order selection must not lose a complex exponential: its first reflection coefficient removes 60 dB.  A real
                # sinusoid near a quarter of the sampling rate gains nothing at order 1 and the stop-at-first-increase rule
                # legitimately returns the order-0 model: not asserted)
                for name in zoo.CLASSES + (['pburg:AIC', 'pburg:MDL'] if dt == 'complex' else []):
                    over = {'order': 4, 'IP': 6, 'NSIG': 1 if dt == 'complex' else 2, 'P': 2, 'Q': 2, 'armalag': 10,
                            # (the correlogram needs NFFT >= 2 lag + 1 to hold its lag sequence: C05's admissibility)
                            # (long records: a few lags, as one would use them)
                            'corrlag': min(N - 1, (nfft - 1) // 2) if N < 1000 else 25,
                            'window': 'rectangular'}
                    ev = {'ev': 'tone', 'cls': name, 'dt': dt, 'N': N, 'nfft': nfft, 'k': int(k), 'nw10': 25}
                    ok, obj = call_guard(zoo.build, name, x.copy(), nfft, sampling, False, **over)
                    if ok:
                        ok, psd = call_guard(lambda: np.array(obj.psd))
                    ev['raised'] = not ok
                    if ok:
                        f = np.array(obj.frequencies())
                        ev['lenpsd'] = int(len(psd))
                        ev['lenfreq'] = int(len(f))
                        ev['realfinite'] = bool(np.isrealobj(psd) and np.all(np.isfinite(psd)))
                        j = int(np.argmax(psd)) if len(psd) else 0
                        ev['fbin'] = int(round(f[j] * obj.NFFT / sampling)) if j < len(f) else -9999
                        ev['nfft'] = int(obj.NFFT)
                        ev['nfft_asked'] = nfft
                    else:
                        ev.update(lenpsd=0, lenfreq=0, realfinite=False, fbin=0)
                    batch.add(ev, {'cls': name, 'dt': dt, 'N': N, 'nfft': nfft, 'k': int(k), 'seed': chk.seed})
    # real data: the one-sided values are the two-sided values of the same samples declared complex, placed on
    # the positive axis by the class's own rule (ObsC02: same / folded / doubled)
    for N, nfft in confs[:3]:
        xr = zoo.signal(rng, N, False, 'tones')
        for name in zoo.CLASSES:
            ev = {'ev': 'fold', 'cls': name, 'N': N, 'nfft': nfft}
            ok1, one = call_guard(lambda: np.array(zoo.build(name, xr.copy(), nfft).psd))
            ok2, two = call_guard(lambda: np.array(zoo.build(name, xr.astype(complex), nfft).psd))
            ev['raised'] = not (ok1 and ok2)
            if ok1 and ok2 and len(two) == nfft:
                h = nfft // 2 + 1 if nfft % 2 == 0 else (nfft + 1) // 2
                sc = float(np.max(np.abs(two)))
                fold = two[:h].copy()
                for k in range(1, h):
                    if not (nfft % 2 == 0 and k == nfft // 2):
                        fold[k] += two[nfft - k]
                ev['len_ok'] = bool(len(one) == h)
                if len(one) == h:
                    ev['same_dev'] = obs.q(np.max(np.abs(one - two[:h])) / sc)
                    ev['fold_dev'] = obs.q(np.max(np.abs(one - fold)) / sc)
                    ev['double_dev'] = obs.q(np.max(np.abs(one - 2 * two[:h])) / sc)
                else:
                    ev.update(same_dev=obs.QCAP, fold_dev=obs.QCAP, double_dev=obs.QCAP)
            else:
                ev.update(len_ok=False, same_dev=0, fold_dev=0, double_dev=0)
            batch.add(ev, {'cls': name, 'N': N, 'nfft': nfft, 'seed': chk.seed})
    # complex data: the class stores the values of the functional estimator (a two-sided spectrum starting at
    # frequency 0; MUSIC / EV functions return the centred layout, which the class rotates)
    import spectrum as sp
    from spectrum.eigenfre import eigen
    for N, nfft in confs[:3]:
        xc = zoo.signal(rng, N, True, 'tones')
        pp = zoo.PARAMS
        fns = {
            'pcorrelogram': lambda: sp.CORRELOGRAMPSD(xc.copy(), lag=pp['corrlag'], NFFT=nfft),
            'pminvar': lambda: sp.minvar(xc.copy(), pp['order'], NFFT=nfft)[0],
            'Periodogram': lambda: sp.speriodogram(xc.copy(), NFFT=nfft, detrend=False, scale_by_freq=False, window='hann'),
            'pmusic': lambda: np.roll(eigen(xc.copy(), pp['IP'], NSIG=pp['NSIG'], method='music', NFFT=nfft)[0], -(nfft // 2)),
            'pev': lambda: np.roll(eigen(xc.copy(), pp['IP'], NSIG=pp['NSIG'], method='ev', NFFT=nfft)[0], -(nfft // 2)),
            'pburg': lambda: sp.arma2psd(A=sp.arburg(xc.copy(), pp['order'])[0], rho=sp.arburg(xc.copy(), pp['order'])[1], NFFT=nfft),
        }
        for name, f in fns.items():
            ev = {'ev': 'classfn', 'cls': name, 'N': N, 'nfft': nfft}
            ok1, a = call_guard(lambda: np.array(zoo.build(name, xc.copy(), nfft).psd))
            ok2, b = call_guard(f)
            ev['raised'] = not (ok1 and ok2)
            ev['dev'] = obs.q(zoo.rel_dev(a, b)) if ok1 and ok2 else 0
            batch.add(ev, {'cls': name, 'N': N, 'nfft': nfft, 'seed': chk.seed})
    # objects alive at the same time keep their own values and their own axis (zoo.coexistence)
    for cplx in (False, True):
        for r in zoo.coexistence(zoo.CLASSES, rng, cplx=cplx):
            batch.add({'ev': 'coexist', 'cls': r['cls'], 'dt': 'complex' if cplx else 'real', 'N': 32, 'nfft': 32, 'raised': r['raised'],
                       'psd_dev': obs.q(r['psd_dev']), 'axis_dev': obs.q(r['axis_dev'])}, {'cls': r['cls'], 'cplx': cplx, 'seed': chk.seed})
    obs.validate(chk, batch, 'obs-tones', lambda ev, cl: 'C02:%s:%s:%s:%s:%s' % (ev['ev'], ev['cls'], ev.get('dt', 'real'), 'odd' if ev.get('nfft_asked', ev['nfft']) % 2 else 'even', cl),
                 lambda ev, cl: '%s (NFFT=%d, N=%d): clause "%s" fails: %s' % (ev['cls'], ev.get('nfft_asked', ev['nfft']), ev['N'], cl, ev))
    chk.sample('obs-event', batch.events[0], 1)


def run(chk):
    core.run_jobs(chk, [layout_job(chk)])
    tone_events(chk)
    from .. import quiet
    quiet.run_for(chk, 'C02')      # Quiet.tla: asking for diagnostics is not an argument


def replay_case(chk, sig, case):
    run(chk)
