"""C14 - covariance and modified-covariance AR fits are least-squares optimal.

Covar.tla: the two least-squares problems written with the corrmtx data matrices and
solved by exact Gaussian elimination; TLC checks residual orthogonality, error = squared
residual norm, and exact recovery of noiseless unit-circle exponentials.  Every solved
state is replayed into arcovar / modcovar / pcovar / pmodcovar and - where the fast
recursion is well defined - arcovar_marple / modcovar_marple.  N up to 128: ObsC14.tla.
"""
import numpy as np

from .. import core, material as M, tlc, obs
from ..kern_util import fresh, call_guard, cmp_vec, cmp_scalar, entry_variants, live_object_dev, np_int


def finite(*vals):
    try:
        return all(np.all(np.isfinite(np.asarray(v, dtype=complex))) for v in vals)
    except Exception:
        return False


def replay_state(chk, st, cplx, expo):
    from spectrum import arcovar, arcovar_marple, modcovar, modcovar_marple, pcovar, pmodcovar
    if st['phase'] != 'done':
        return
    mode = ('complex' if cplx else 'real') + ('-expo' if expo else '')
    N = len(st['x'])
    xa = np.array(M.cq_seq(st['x']), dtype=complex) if cplx else np.array(M.real_list(st['x']), dtype=float)
    generic = True      # all lower orders well posed with positive errors: the fast recursions are defined
    for p, s in enumerate(st['sol'], start=1):
        for which, fn, fast, cls in (('cov', arcovar, arcovar_marple, pcovar), ('mod', modcovar, modcovar_marple, pmodcovar)):
            r = s[which]
            if not r.get('ok'):
                generic = False
                continue
            if M.has_ovf(r['a']) or M.has_ovf(r['e']):
                chk.skip('covar-ovf')
                generic = False
                continue
            expA = np.array(M.cq_seq(r['a']))
            expE = float(M.rat(r['e']))
            if expE <= 0 and not expo:
                generic = False
            # conditioning guard: exact solution with huge coefficients = nearly singular in floating point
            if np.max(np.abs(expA)) > 1e3:
                chk.skip('covar-ill-conditioned')
                continue
            case = {'x': xa, 'order': p, 'method': which, 'expect': {'a': expA, 'e': expE}}
            name = fn.__name__
            counter = getattr(chk, '_c14_counter', 0)
            chk._c14_counter = counter + 1
            for ename, xin, tol in entry_variants(xa, cplx, counter, full=chk.tier != 'quick'):
                ok, res = call_guard(fn, fresh(xin), np_int(p, counter))
                chk.evaluations += 1
                tol = max(tol, 1e-7) if tol < 1e-6 else 1e-3      # single precision least squares
                if not ok:
                    chk.violation('C14:%s:%s:raises:%s' % (name, mode, ename), '%s raises %r on a well-posed problem (%s input)' % (name, res, ename), case)
                else:
                    a, e = res
                    bad = cmp_vec(a, expA, tol=tol, name='ar') or cmp_scalar(e, expE, tol=tol, name='error')
                    if bad:
                        chk.violation('C14:%s:%s:values:%s' % (name, mode, ename),
                                      '%s(x=%s as %s, %d) is not the least-squares minimiser: %s' % (name, xa.tolist(), ename, p, bad),
                                      dict(case, entry=ename, observed={'a': a, 'e': e}))
            ok, obj = call_guard(lambda: cls(xa.copy(), p, NFFT=16))
            if ok:
                ok, err = call_guard(lambda: obj.psd)
            if ok:
                bad = cmp_vec(obj.ar, expA, tol=1e-7, name=cls.__name__ + '.ar')
                if bad:
                    chk.violation('C14:%s:%s:values' % (cls.__name__, mode), '%s(x=%s, %d): %s' % (cls.__name__, xa.tolist(), p, bad), case)
            # fast (Marple) recursions: defined when every lower-order problem is well posed
            if generic and expE > 0:
                ok, res = call_guard(fast, xa.astype(complex), np_int(p, counter + 1))
                if ok and which == 'cov':
                    af, pf = res[0], res[1]
                    perr = expE / (N - p)
                elif ok:
                    af, pf = res[0], res[1]
                    perr = expE / (2.0 * (N - p))
                if not ok:
                    # every lower-order problem is well posed with a positive error: the recursion is defined
                    chk.violation('C14:%s:%s:raises' % (fast.__name__, mode),
                                  '%s(x=%s, %d) raises %r although every lower-order least-squares problem is well posed' % (fast.__name__, xa.tolist(), p, res), case)
                elif not finite(af, pf):
                    chk.count('covar-' + mode, fast.__name__ + '-undefined')
                else:
                    af = np.asarray(af)
                    bad = (cmp_vec(af[:p], expA, tol=1e-6, name='ar') or cmp_scalar(pf, perr, tol=1e-6, name='per-sample error')
                           or (None if np.all(af[p:] == 0) else 'coefficients beyond the order are not zero'))
                    if bad:
                        chk.violation('C14:%s:%s:values' % (fast.__name__, mode),
                                      '%s(x=%s, %d) differs from the least-squares solution: %s' % (fast.__name__, xa.tolist(), p, bad),
                                      dict(case, observed={'a': af[:p], 'p': pf}))
                    chk.count('covar-' + mode, fast.__name__ + '-compared')
    if N >= 6 and not expo and st['sol'][0]['cov'].get('ok') and st['sol'][1]['cov'].get('ok') and st['sol'][0]['mod'].get('ok') and st['sol'][1]['mod'].get('ok'):
        for cls in (pcovar, pmodcovar):
            ok, dev = call_guard(live_object_dev, lambda **kw: cls(xa.copy(), **dict({'order': 2, 'NFFT': 8}, **kw)),
                                 [('ar_order', 1, 'order'), ('NFFT', 9, 'NFFT'), ('sampling', 2.0, 'sampling'), ('ar_order', 2, 'order')],
                                 outputs=('psd', 'ar', 'rho'))
            if ok and dev is not None and dev > 1e-6 and np.isfinite(dev):
                chk.violation('C14:%s:%s:live-object' % (cls.__name__, mode),
                              '%s after re-assigning ar_order / NFFT / sampling differs from a fresh object (%r)' % (cls.__name__, dev), {'x': xa})
    chk.replayed += 1
    chk.count('covar-' + mode, 'replayed')
    if N == 5:
        chk.sample('covar-' + mode, {'x': st['x'], 'zs': st['zs'], 'order1': st['sol'][0]}, 1)


def jobs(chk):
    quick = chk.tier == 'quick'
    inv = ['ResidualOrthogonal', 'ErrorIsMinimum', 'ExactRecovery']
    if quick:
        specs = [(False, 'free', 4, 6, 2, 'PartsS'),
                 (True, 'free', 4, 5, 2, 'Parts01'),
                 (False, 'expo', 4, 7, 2, 'PartsQ'),
                 (True, 'expo', 4, 6, 2, 'PartsM')]
    else:
        specs = [(False, 'free', 4, 7, 3, 'PartsS'), (True, 'free', 4, 4, 2, 'PartsS'), (True, 'free', 5, 5, 2, 'PartsS'),
                 (False, 'expo', 4, 7, 2, 'PartsQ'), (True, 'expo', 4, 7, 3, 'PartsS')]
    js = []
    for cplx, mode, minn, maxn, maxp, parts in specs:
        cfg = tlc._cfg_text(constants={'MaxN': maxn, 'MinN': minn, 'MaxP': maxp, 'Parts': '<- ' + parts, 'Complex': cplx, 'Mode': mode},
                            invariants=inv)
        js.append({'module': 'MC_Covar', 'cfg': cfg, 'part': 'covar-%s-%s' % ('complex' if cplx else 'real', mode),
                   'replay': (lambda st, c=cplx, e=(mode == 'expo'): replay_state(chk, st, c, e)),
                   'kw': {'workers': 8}})
    return js


def rank_deficient_cases(rng, n):
    """(x, p): x[0..N-2] obeys a recurrence shorter than p (constant, alternating, one exponential, one sinusoid),
    the last sample(s) do not - the regressors are linearly dependent, the least-squares minimum is not zero.
    N - p >= p throughout (the domain of the property)."""
    out = [(np.array([1., 1., 1., 1., 1., 1., 1., 5.]), 2),
           (np.array([1., -1.] * 6 + [2.5]), 3),
           (np.array([2., 2., 2., 2., 2., 2., -1., 2., 2.]), 3),
           # long records (more than 100 prediction equations)
           (np.array([1.5] * 127 + [4.0]), 3), (np.array([1., -1.] * 60 + [1., 3.]), 4),
           (np.array([1., 0., -1., 0.] * 30 + [1., 0., -1., 2.]) + 0j, 6)]
    while len(out) < n:
        N = int(rng.choice([8, 12, 17, 32, 64, 128]))
        t = np.arange(N)
        # shapes 2, 3 (one exponential / one sinusoid): regressors dependent only up to rounding - the inputs behind
        # fix c589fcc (lstsq singular-value cutoff)
        shape = int(rng.randint(4))
        if shape == 0:
            x, r = np.full(N, rng.uniform(0.5, 3)), 1
        elif shape == 1:
            x, r = rng.uniform(0.5, 3) * (-1.0) ** t, 1
        elif shape == 2:
            x, r = (rng.randn() + 1j * rng.randn()) * np.exp(2j * np.pi * rng.randint(1, 20) / 41.0 * t), 1
        else:
            x, r = rng.uniform(0.5, 2) * np.cos(2 * np.pi * rng.randint(1, 20) / 41.0 * t + rng.rand()), 2
        p = int(rng.randint(r + 1, min(N // 2, r + 4) + 1))
        x = x.copy()
        x[-1] += rng.uniform(0.5, 4) * (1 if rng.rand() < 0.5 else -1)
        if rng.rand() < 0.3:
            x = x[::-1].copy()      # the outlier first: the backward half of the modified method sees it last
        out.append((x, p))
    return out


def obs_events(chk):
    from spectrum import arcovar, arcovar_marple, modcovar, modcovar_marple, corrmtx
    rng = np.random.RandomState(1400 + chk.seed)
    batch = obs.Batch('ObsC14')
    reps = 30 if chk.tier == 'quick' else 300
    sizes = [6, 9, 16, 33, 64, 127, 128]
    grid = [(N, c) for N in sizes for c in (False, True)]
    # (own stream: the events below keep the inputs they had before these cases existed)
    rd = rank_deficient_cases(np.random.RandomState(1450 + chk.seed), 16 if chk.tier == 'quick' else 80)
    for rep in range(reps + len(grid) + len(rd)):
        if rep >= reps + len(grid):
            N, cplx = len(rd[rep - reps - len(grid)][0]), bool(np.iscomplexobj(rd[rep - reps - len(grid)][0]))
        elif rep < len(grid):
            N, cplx = grid[rep]
        else:
            N = int(rng.choice(sizes))
            cplx = bool(rng.randint(2))
        p = int(rng.randint(1, min(N // 2, 20) + 1))
        kind = int(rng.randint(4))
        t = np.arange(N)
        if rep >= reps + len(grid):
            # linearly dependent regressors and a residual that does not vanish: the minimiser is not unique, the
            # minimum (and the orthogonality of every minimiser's residual) is
            kind = 4
            x, p = rd[rep - reps - len(grid)]
        elif kind == 3:
            # two exponentials / one sinusoid in weak noise, fitted with more coefficients than components:
            # full rank but ill-conditioned regressors
            N = max(N, 33)
            t = np.arange(N)
            p = int(rng.choice([4, 6, 8]))
            x = np.cos(0.9 * t + 0.2) + (1j * np.sin(0.9 * t + 0.2) + np.exp(1.7j * t) if cplx else 0.5 * np.cos(1.7 * t))
            x = x + 10 ** rng.uniform(-7.5, -4) * (rng.randn(N) + (1j * rng.randn(N) if cplx else 0))
        elif kind == 2:      # noiseless sum of p exponentials (complex) / p//2 sinusoids (real)
            pp = min(p, 6)
            if cplx:
                f = rng.choice(np.arange(1, 40), pp, replace=False) / 41.0
                x = sum((rng.randn() + 1j * rng.randn()) * np.exp(2j * np.pi * fi * t) for fi in f)
            else:
                pp = max(2, pp - pp % 2)
                f = rng.choice(np.arange(1, 20), pp // 2, replace=False) / 41.0
                x = sum(rng.uniform(0.5, 2) * np.cos(2 * np.pi * fi * t + rng.rand()) for fi in f)
            p = pp
            if N - p < p + 2:
                N = 2 * p + 4
                t = np.arange(N)
                continue
        else:
            x = rng.randn(N) + (np.cos(0.9 * t) if kind == 1 else 0)
            if cplx:
                x = x + 1j * rng.randn(N)
        for which, fn, fast, method in (('cov', arcovar, arcovar_marple, 'covariance'), ('mod', modcovar, modcovar_marple, 'modified')):
            ev = {'ev': 'ls', 'which': which, 'N': N, 'p': p, 'cplx': cplx, 'noiseless': kind == 2}
            ok, res = call_guard(fn, x.copy(), p)
            ok2, X = call_guard(corrmtx, x.copy(), p, method)
            ev['raised'] = not (ok and ok2)
            if not ev['raised']:
                a, e = res
                X = np.asarray(X)
                resid = X[:, 0] + X[:, 1:] @ a
                sc = float(np.real(np.vdot(X[:, 0], X[:, 0])))
                ev['orth_dev'] = obs.q(np.max(np.abs(X[:, 1:].conj().T @ resid)) / sc)
                ev['err_dev'] = obs.q(abs(e - np.real(np.vdot(resid, resid))) / sc)
                ev['len_ok'] = bool(len(a) == p)
                # uniqueness: the coefficients of the full-rank problem, to the accuracy its conditioning allows
                cond = float(np.linalg.cond(X[:, 1:])) if len(a) == p else 0.0
                ls = np.linalg.lstsq(-X[:, 1:], X[:, 0], rcond=None)[0] if len(a) == p else a
                ev['cond_k'] = obs.q(cond, 1e3)
                ev['coef_dev'] = obs.q(np.linalg.norm(a - ls) / max(np.linalg.norm(ls), 1e-300)) if len(a) == p else 0
                if kind == 2:
                    roots = np.roots(np.concatenate(([1.0], a)))
                    truth = np.exp(2j * np.pi * f) if cplx else np.concatenate((np.exp(2j * np.pi * f), np.exp(-2j * np.pi * f)))
                    ev['freq_dev'] = obs.q(max(np.min(np.abs(roots - z)) for z in truth))
                    ev['err_rel'] = obs.q(abs(e) / sc)
                else:
                    ev['freq_dev'] = 0
                    ev['err_rel'] = 0
                okf, rf = call_guard(fast, x.astype(complex), p)
                overdetermined = N - p > p + 1
                # (the fast recursions are compared on well-conditioned problems only: they are recursions in the order
                #  and lose digits with every ill-conditioned lower-order stage)
                if okf and finite(rf[0][:p], rf[1]) and kind not in (2, 3, 4) and overdetermined:
                    af = np.asarray(rf[0])
                    per = e / (N - p) if which == 'cov' else e / (2.0 * (N - p))
                    ev['fast_dev'] = obs.q(max(np.max(np.abs(af[:p] - a)) / max(1.0, np.max(np.abs(a))), abs(rf[1] - per) / max(abs(per), 1e-300)))
                    ev['fast_tail_zero'] = bool(np.all(af[p:] == 0))
                    ev['fast_defined'] = True
                else:
                    ev['fast_dev'] = 0
                    ev['fast_tail_zero'] = True
                    # noiseless data or a (nearly) square system: the error vanishes and the fast recursion is not defined
                    ev['fast_defined'] = bool(kind in (2, 3, 4) or not overdetermined)
            else:
                ev.update(orth_dev=0, err_dev=0, len_ok=False, cond_k=0, coef_dev=0, freq_dev=0, err_rel=0, fast_dev=0, fast_tail_zero=False, fast_defined=False)
            batch.add(ev, {'N': N, 'p': p, 'cplx': cplx, 'kind': kind, 'seed': chk.seed, 'rep': rep})
    obs.validate(chk, batch, 'obs-large-N', lambda ev, cl: 'C14:OBS:%s:%s:%s' % (ev['which'], cl, 'complex' if ev['cplx'] else 'real'),
                 lambda ev, cl: '%s N=%d order=%d: clause "%s" fails: %s' % (ev['which'], ev['N'], ev['p'], cl, ev))
    chk.sample('obs-event', batch.events[0], 1)


def run(chk):
    core.run_jobs(chk, jobs(chk))
    obs_events(chk)
    from .. import session
    session.run_for(chk, 'C14')      # Session.tla: results do not depend on earlier calls
    from .. import units
    units.run_for(chk, 'C14')      # Units.tla: the unit the data are expressed in is not part of the data
    from .. import carrier
    carrier.run_for(chk, 'C14')      # Carrier.tla: a sample denotes its value whatever container carries it


def replay_case(chk, sig, case):
    run(chk)
