"""C05 - NFFT only chooses the sampling grid of one underlying spectrum.

Kernel level: every spectrum of the exact universe is described in the lag / coefficient
domain, where NFFT does not appear, and evaluated by the replays at several NFFT (C01,
C08, C16); Periodogram.tla states the grid consistency NFFT=2 vs NFFT=4 as a TLC invariant.
Class level: ObsC05.tla holds admissibility and the clauses; the driver compares, for every
class, the PSD at common frequencies of (NFFT, c NFFT) incl. odd NFFT, and the parameters.
"""
import numpy as np

from .. import core, tlc, obs, zoo
from ..kern_util import call_guard
from . import C04

PARKEYS = ('ar', 'ma', 'rho', 'reflection', 'sv', 'taper_eigenvalues')


def run(chk):
    core.run_jobs(chk, C04.theorem_jobs(chk))
    rng = np.random.RandomState(500 + chk.seed)
    batch = obs.Batch('ObsC05')
    quick = chk.tier == 'quick'
    over = {'corrlag': 10}
    p = dict(zoo.PARAMS)
    p.update(over)
    confs = [(30, 32, 2), (30, 33, 2), (30, 45, 3), (24, 24, 3)] if quick else [(30, 32, 2), (30, 33, 2), (30, 45, 3), (25, 25, 4), (40, 64, 2), (31, 31, 3), (16, 24, 5)]
    for N, nfft, c in confs:
        for dt in ('real', 'complex'):
            for kind in (['tones'] if quick else ['noise', 'tones', 'arma']):
                x = zoo.signal(rng, N, dt == 'complex', kind)
                for name in zoo.CLASSES + zoo.VARIANTS:
                    order = {'pburg': p['order'], 'pyule': p['order'], 'pcovar': p['order'], 'pmodcovar': p['order'], 'pminvar': p['order'],
                             'parma': p['P'], 'pma': p['maQ'], 'pmusic': p['IP'], 'pev': p['IP']}.get(name, 0)
                    ev = {'ev': 'grid', 'cls': name, 'dt': dt, 'N': N, 'nfft': nfft, 'c': c, 'lag': p['corrlag'], 'order': order}
                    def both(n_):
                        ob = zoo.build(name, x.copy(), n_, 1.0, False, **over)
                        out = zoo.outputs(name, ob)
                        out['_readback'] = zoo.readback_dev(ob, n_, 1.0)
                        return out
                    ok1, o1 = call_guard(both, nfft)
                    ok2, o2 = call_guard(both, c * nfft)
                    ev['raised'] = not (ok1 and ok2)
                    ev['grid_dev'] = obs.q(max(o1['_readback'], o2['_readback'])) if ok1 and ok2 else 0
                    if ok1 and ok2:
                        a, b = o1['psd'], o2['psd']
                        sc = max(float(np.max(np.abs(a))), 1e-300)
                        idx = np.arange(len(a)) * c
                        if dt == 'real':
                            want = (c * nfft) // 2 + 1 if (c * nfft) % 2 == 0 else (c * nfft + 1) // 2
                        else:
                            want = c * nfft
                        ev['len_ok'] = bool(len(b) == want)
                        ev['dev'] = obs.q(np.max(np.abs(b[idx] - a)) / sc) if idx[-1] < len(b) else obs.QCAP
                        pd = 0.0
                        for key in PARKEYS:
                            if key in o1 and key in o2:
                                pd = max(pd, zoo.rel_dev(o2[key], o1[key]))
                        ev['par_dev'] = obs.q(pd)
                    else:
                        ev.update(len_ok=False, dev=0, par_dev=0)
                    batch.add(ev, {'cls': name, 'dt': dt, 'N': N, 'nfft': nfft, 'c': c, 'kind': kind, 'seed': chk.seed})
    # functional forms (detrending and frequency scaling on, spelled out: defaults are not part of the property) and the
    # live object after an NFFT change
    import spectrum as sp
    from spectrum.eigenfre import eigen
    for N, nfft, c in confs[:3]:
        for dt in ('real', 'complex'):
            x = zoo.signal(rng, N, dt == 'complex', 'tones') + 0.7
            forms = {
                'speriodogram()': lambda n: sp.speriodogram(x.copy(), NFFT=n, detrend=True, scale_by_freq=True, sampling=1.0, window='hamming'),
                'speriodogram(detrend=False)': lambda n: sp.speriodogram(x.copy(), NFFT=n, detrend=False, scale_by_freq=False),
                'CORRELOGRAMPSD()': lambda n: sp.CORRELOGRAMPSD(x.copy(), lag=10, NFFT=n),
                'minvar()': lambda n: sp.minvar(x.copy(), 4, NFFT=n)[0],
                # ... the same after an estimate of larger dimension was computed at the coarse NFFT only (a result must not
                # depend on what was computed before)
                'minvar() after a larger order': lambda n: (sp.minvar(x.copy(), 7, NFFT=n) if n == nfft else None, sp.minvar(x.copy(), 4, NFFT=n)[0])[1],
                # the smallest admissible NFFT of the correlogram
                'CORRELOGRAMPSD(NFFT=2lag+1)': lambda n: sp.CORRELOGRAMPSD(x.copy(), lag=(nfft - 1) // 2 if nfft % 2 else 10, NFFT=n),
                'music()': lambda n: eigen(x.copy(), 8, NSIG=2, method='music', NFFT=n)[0],
                'ev()': lambda n: eigen(x.copy(), 8, NSIG=2, method='ev', NFFT=n)[0],
                'arma2psd()': lambda n: sp.arma2psd(A=[0.5, -0.2], B=[0.3], rho=2.0, NFFT=n),
            }
            for fname, f in forms.items():
                ev = {'ev': 'grid', 'cls': fname, 'dt': dt, 'N': N, 'nfft': nfft, 'c': c, 'lag': 0, 'order': 0}
                ok1, a = call_guard(f, nfft)
                ok2, b = call_guard(f, c * nfft)
                ev['raised'] = not (ok1 and ok2)
                if ok1 and ok2:
                    a, b = np.asarray(a), np.asarray(b)
                    if fname.startswith('speriodogram()'):
                        # scale_by_freq is on by default: 2*pi/df grows with NFFT, divide it out
                        a, b = a / nfft, b / (c * nfft)
                    centred = fname in ('music()', 'ev()')
                    if centred:      # centred layout: entry j <-> bin j - n//2
                        ia = np.arange(len(a))
                        ib = (ia - nfft // 2) * c + (c * nfft) // 2
                    else:
                        ia = np.arange(len(a))
                        ib = ia * c
                    ev['len_ok'] = True
                    ev['dev'] = obs.q(np.max(np.abs(b[ib] - a[ia])) / max(float(np.max(np.abs(a))), 1e-300)) if ib.max() < len(b) and ib.min() >= 0 else obs.QCAP
                    ev['par_dev'] = 0
                else:
                    ev.update(len_ok=False, dev=0, par_dev=0)
                batch.add(ev, {'form': fname, 'dt': dt, 'N': N, 'nfft': nfft, 'c': c, 'seed': chk.seed})
            for name in zoo.CLASSES:
                ev = {'ev': 'grid', 'cls': name, 'dt': dt, 'N': N, 'nfft': nfft, 'c': c, 'lag': p['corrlag'], 'order': 0, 'live': True}

                def live():
                    o = zoo.build(name, x.copy(), nfft, 1.0, False, **over)
                    first = np.array(o.psd)
                    o.frequencies()                    # (the axis has been looked at on the coarse grid)
                    o.NFFT = c * nfft
                    return (first, np.array(o.get_converted_psd('onesided' if o.datatype == 'real' else 'twosided')), np.array(o.psd),
                            zoo.readback_dev(o, c * nfft, 1.0))
                ok1, r = call_guard(live)
                ok2, fresh = call_guard(lambda: np.array(zoo.build(name, x.copy(), c * nfft, 1.0, False, **over).psd))
                ev['raised'] = not (ok1 and ok2)
                if ok1 and ok2:
                    first, conv, second, rb = r
                    ev['grid_dev'] = obs.q(rb)
                    ev['len_ok'] = bool(conv.shape == fresh.shape and second.shape == fresh.shape)
                    ev['dev'] = obs.q(max(zoo.rel_dev(conv, fresh), zoo.rel_dev(second, fresh))) if ev['len_ok'] else obs.QCAP
                    ev['par_dev'] = 0
                else:
                    ev.update(len_ok=False, dev=0, par_dev=0)
                batch.add(ev, {'cls': name, 'dt': dt, 'N': N, 'nfft': nfft, 'c': c, 'live': True, 'seed': chk.seed})
    # long records (past 4096 samples, the library's default NFFT; the thorough tier also past 8192): NFFT below and above
    # the record length where the estimator admits it, transform lengths with a large prime factor, and the default
    # value 4096 passed explicitly
    def next_prime(n):
        while any(n % d == 0 for d in range(2, int(n ** 0.5) + 1)):
            n += 1
        return n
    for NL in ((4300,) if quick else (4300, 8300)):
        for dt in ('real', 'complex'):
            x = zoo.signal(rng, NL, dt == 'complex', 'arma') + 0.3
            pr = next_prime(NL)
            long_forms = [
                ('speriodogram(long)', lambda n: sp.speriodogram(x.copy(), NFFT=n, detrend=False, scale_by_freq=False, sampling=1.0, window='hann'),
                 [(pr, 3), (NL, 2), (NL, 13)]),      # (13: a multiple that is not a product of small primes)
                ('CORRELOGRAMPSD(long)', lambda n: sp.CORRELOGRAMPSD(x.copy(), lag=7, NFFT=n, window='hamming', norm='biased'),
                 [(15, 2), (16, 8), (255, 64), (next_prime(4097), 2)]),
                ('minvar(long)', lambda n: sp.minvar(x.copy(), 4, NFFT=n)[0], [(2048, 2), (4096, 2), (127, 3)]),
                ('music(long)', lambda n: eigen(x.copy(), 8, NSIG=2, method='music', NFFT=n)[0], [(next_prime(4097), 2), (128, 3)]),
                ('Periodogram(long)', lambda n: np.array(zoo.build('Periodogram', x.copy(), n).psd), [(pr, 2), (NL + 1, 13)]),
                ('pcorrelogram(long)', lambda n: np.array(zoo.build('pcorrelogram', x.copy(), n, corrlag=7).psd), [(16, 8), (4097, 2)]),
                ('pminvar(long)', lambda n: np.array(zoo.build('pminvar', x.copy(), n).psd), [(4096, 2)]),
                ('pburg(long)', lambda n: np.array(zoo.build('pburg', x.copy(), n).psd), [(4096, 2), (4097, 3)]),
            ]
            for fname, f, pairs in long_forms:
                for nfft, c in pairs:
                    ev = {'ev': 'grid', 'cls': fname, 'dt': dt, 'N': NL, 'nfft': nfft, 'c': c, 'lag': 0, 'order': 0}
                    ok1, a = call_guard(f, nfft)
                    ok2, b = call_guard(f, c * nfft)
                    ev['raised'] = not (ok1 and ok2)
                    if ok1 and ok2:
                        a, b = np.asarray(a), np.asarray(b)
                        ia = np.arange(len(a))
                        ib = (ia - nfft // 2) * c + (c * nfft) // 2 if fname.startswith('music') else ia * c
                        half = lambda n_: n_ // 2 + 1 if n_ % 2 == 0 else (n_ + 1) // 2
                        # both results in the same layout: two-sided (NFFT values) or, real data, one-sided
                        ev['len_ok'] = bool((len(a) == nfft and len(b) == c * nfft) or (dt == 'real' and len(a) == half(nfft) and len(b) == half(c * nfft)))
                        ev['dev'] = obs.q(np.max(np.abs(b[ib] - a[ia])) / max(float(np.max(np.abs(a))), 1e-300)) if ib.max() < len(b) and ib.min() >= 0 else obs.QCAP
                        ev['par_dev'] = 0
                    else:
                        ev.update(len_ok=False, dev=0, par_dev=0)
                    batch.add(ev, {'form': fname, 'dt': dt, 'N': NL, 'nfft': nfft, 'c': c, 'seed': chk.seed})
    obs.validate(chk, batch, 'obs-grids', lambda ev, cl: 'C05:%s:%s:%s:%s' % (ev['cls'], ev['dt'], 'odd' if ev['nfft'] % 2 else 'even', cl),
                 lambda ev, cl: '%s (%s) NFFT=%d vs %d*NFFT: clause "%s" fails: %s' % (ev['cls'], ev['dt'], ev['nfft'], ev['c'], cl, ev))
    chk.sample('obs-event', batch.events[0], 1)


def replay_case(chk, sig, case):
    run(chk)
