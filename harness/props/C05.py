"""C05 - NFFT only chooses the sampling grid of one underlying spectrum.

Kernel level: every spectrum of the exact universe is described in the lag / coefficient
domain, where NFFT does not appear, and evaluated by the replays at several NFFT (C01,
C08, C16); Periodogram.tla states the grid consistency NFFT=2 vs NFFT=4 as a TLC invariant.
Class level: ObsC05.tla holds admissibility and the clauses; the driver compares, for every
class, the PSD at common frequencies of (NFFT, c NFFT) incl. odd NFFT, and the parameters.
"""
import numpy as np

from .. import core, tlc, obs, zoo
from ..kern_util import call_guard
from . import C04

PARKEYS = ('ar', 'ma', 'rho', 'reflection', 'sv', 'taper_eigenvalues')


def run(chk):
    core.run_jobs(chk, C04.theorem_jobs(chk))
    rng = np.random.RandomState(500 + chk.seed)
    batch = obs.Batch('ObsC05')
    quick = chk.tier == 'quick'
    over = {'corrlag': 10}
    p = dict(zoo.PARAMS)
    p.update(over)
    confs = [(30, 32, 2), (30, 33, 2), (30, 45, 3)] if quick else [(30, 32, 2), (30, 33, 2), (30, 45, 3), (25, 25, 4), (40, 64, 2), (31, 31, 3), (16, 24, 5)]
    for N, nfft, c in confs:
        for dt in ('real', 'complex'):
            for kind in (['tones'] if quick else ['noise', 'tones', 'arma']):
                x = zoo.signal(rng, N, dt == 'complex', kind)
                for name in zoo.CLASSES + zoo.VARIANTS:
                    order = {'pburg': p['order'], 'pyule': p['order'], 'pcovar': p['order'], 'pmodcovar': p['order'], 'pminvar': p['order'],
                             'parma': p['P'], 'pma': p['maQ'], 'pmusic': p['IP'], 'pev': p['IP']}.get(name, 0)
                    ev = {'ev': 'grid', 'cls': name, 'dt': dt, 'N': N, 'nfft': nfft, 'c': c, 'lag': p['corrlag'], 'order': order}
                    ok1, o1 = call_guard(lambda: zoo.outputs(name, zoo.build(name, x.copy(), nfft, 1.0, False, **over)))
                    ok2, o2 = call_guard(lambda: zoo.outputs(name, zoo.build(name, x.copy(), c * nfft, 1.0, False, **over)))
                    ev['raised'] = not (ok1 and ok2)
                    if ok1 and ok2:
                        a, b = o1['psd'], o2['psd']
                        sc = max(float(np.max(np.abs(a))), 1e-300)
                        idx = np.arange(len(a)) * c
                        if dt == 'real':
                            want = (c * nfft) // 2 + 1 if (c * nfft) % 2 == 0 else (c * nfft + 1) // 2
                        else:
                            want = c * nfft
                        ev['len_ok'] = bool(len(b) == want)
                        ev['dev'] = obs.q(np.max(np.abs(b[idx] - a)) / sc) if idx[-1] < len(b) else obs.QCAP
                        pd = 0.0
                        for key in PARKEYS:
                            if key in o1 and key in o2:
                                pd = max(pd, zoo.rel_dev(o2[key], o1[key]))
                        ev['par_dev'] = obs.q(pd)
                    else:
                        ev.update(len_ok=False, dev=0, par_dev=0)
                    batch.add(ev, {'cls': name, 'dt': dt, 'N': N, 'nfft': nfft, 'c': c, 'kind': kind, 'seed': chk.seed})
    obs.validate(chk, batch, 'obs-grids', lambda ev, cl: 'C05:%s:%s:%s:%s' % (ev['cls'], ev['dt'], 'odd' if ev['nfft'] % 2 else 'even', cl),
                 lambda ev, cl: '%s (%s) NFFT=%d vs %d*NFFT: clause "%s" fails: %s' % (ev['cls'], ev['dt'], ev['nfft'], ev['c'], cl, ev))
    chk.sample('obs-event', batch.events[0], 1)


def replay_case(chk, sig, case):
    run(chk)
