"""X02 (specification coverage beyond the listed properties) - the single-step Levinson helpers.

LevSteps.tla (on LinPred.tla / Levinson.tla): every positive-definite state holds the whole ladder of
lower-order solutions; TLC checks that the transcribed levup / levdown are the next / previous rung and
that rlevinson's U matrix factorises the Toeplitz matrix (U^H T U = diag(E_0..E_p)).  Each state is
replayed into levinson.levup, levdown and rlevinson.
"""
import numpy as np

from .. import core, material as M, tlc
from ..kern_util import call_guard, cmp_vec, cmp_scalar


def step_up(ks):
    a = np.zeros(0, dtype=complex)
    for k in ks:
        a = np.concatenate((a + k * np.conj(a[::-1]), [k]))
    return a


def replay_state(chk, st, cplx):
    from spectrum import levinson as L
    if st['status'] != 'pd' or len(st['A']) == 0:
        chk.skip('levsteps-not-pd-or-order0')
        return
    mode = 'complex' if cplx else 'real'
    ref = np.array(M.cq_seq(st['ref']), dtype=complex)
    r = np.array(M.cq_seq(st['r']), dtype=complex)
    r0 = float(M.rat(st['r'][0][0]))
    p = len(ref)
    if not cplx:
        ref, r = ref.real.copy(), r.real.copy()
    polys = [np.concatenate(([1.0], step_up(ref[:m]) if cplx else step_up(ref[:m]).real)) for m in range(p + 1)]
    errs = [r0 * float(np.prod(1 - np.abs(ref[:m]) ** 2)) for m in range(p + 1)]
    # the top rung is the state the specification computed exactly
    expA = np.array(M.cq_seq(st['A']), dtype=complex)
    if cmp_vec(polys[p][1:], expA, tol=1e-9) or cmp_scalar(errs[p], float(M.rat(st['P'])), tol=1e-9):
        raise core.MachineryError('harness ladder disagrees with the specification state')
    for m in range(1, p + 1):
        case = {'order': m, 'poly_prev': polys[m - 1], 'k': ref[m - 1], 'err_prev': errs[m - 1], 'poly': polys[m], 'err': errs[m], 'complex': cplx}
        ok, res = call_guard(L.levup, polys[m - 1].copy(), ref[m - 1], errs[m - 1])
        chk.evaluations += 1
        bad = ('raises %r' % (res,)) if not ok else (cmp_vec(res[0], polys[m], name='anxt') or cmp_scalar(res[1], errs[m], name='enxt'))
        if bad:
            chk.violation('X02:levup:%s' % mode, 'levup(a_%d, k_%d, E_%d) is not the order-%d solution: %s' % (m - 1, m, m - 1, m, bad), case)
        ok, res = call_guard(L.levdown, polys[m].copy(), errs[m])
        bad = ('raises %r' % (res,)) if not ok else (cmp_vec(res[0], polys[m - 1], name='acur') or cmp_scalar(res[1], errs[m - 1], name='ecur'))
        if bad:
            chk.violation('X02:levdown:%s' % mode, 'levdown(a_%d, E_%d) is not the order-%d solution: %s' % (m, m, m - 1, bad), case)
    # rlevinson(a_p, E_p) -> R (autocorrelation), U, kr, e
    ok, res = call_guard(L.rlevinson, polys[p].copy(), errs[p])
    case = {'poly': polys[p], 'efinal': errs[p], 'r': r, 'ref': ref, 'complex': cplx}
    if not ok:
        chk.violation('X02:rlevinson:%s:raises' % mode, 'rlevinson raises %r on a minimum-phase polynomial' % (res,), case)
    else:
        R, U, kr, e = res
        expU = np.zeros((p + 1, p + 1), dtype=complex)
        for m in range(p + 1):
            expU[:m + 1, m] = np.conj(polys[m][::-1])
        bad = (cmp_vec(np.asarray(R).ravel(), r.astype(complex), name='R') or cmp_vec(np.asarray(U), expU if cplx else expU.real, name='U')
               or cmp_vec(np.asarray(kr).ravel(), ref, name='kr') or cmp_vec(np.asarray(e).ravel(), np.array(errs[1:]), name='e'))
        if bad:
            chk.violation('X02:rlevinson:%s:values' % mode, 'rlevinson(a, E) of the order-%d state: %s' % (p, bad), dict(case, observed={'R': R, 'U': U, 'kr': kr, 'e': e}))
        else:
            # the envelope on the returned U: U^H T U = diag(E_0 .. E_p)
            T = np.array([[r[i - j] if i >= j else np.conj(r[j - i]) for j in range(p + 1)] for i in range(p + 1)])
            D = np.asarray(U).conj().T @ T @ np.asarray(U)
            if cmp_vec(D, np.diag(errs).astype(D.dtype), tol=1e-8):
                chk.violation('X02:rlevinson:%s:U-factorises' % mode, 'U^H T U is not diag(E_0..E_p)', case)
    chk.replayed += 1
    chk.count('levsteps-' + mode, 'replayed')
    if p == 2:
        chk.sample('levsteps-' + mode, {'r': st['r'], 'ref': st['ref'], 'A': st['A'], 'P': st['P']}, 1)


def run(chk):
    quick = chk.tier == 'quick'
    inv = ['UpIsNextOrder', 'DownIsPrevOrder', 'DownUndoesUp', 'TopIsState', 'UFactorises', 'UFirstRow']
    js = []
    for cplx, order, r0set, parts in ((False, 3 if quick else 4, [1, 2, 3], 'PartsQ' if quick else 'PartsT'),
                                      (True, 2 if quick else 3, [2, 3], 'PartsC' if quick else 'PartsCT')):
        cfg = tlc._cfg_text(constants={'MaxOrder': order, 'R0Set': set(r0set), 'Parts': '<- ' + parts, 'Complex': cplx}, invariants=inv)
        js.append({'module': 'MC_LevSteps', 'cfg': cfg, 'part': 'levsteps-' + ('complex' if cplx else 'real'),
                   'replay': (lambda st, c=cplx: replay_state(chk, st, c))})
    core.run_jobs(chk, js)


def replay_case(chk, sig, case):
    run(chk)
