"""C10 - Levinson and the Toeplitz / Hermitian solvers solve their equations.

Spec: spec/kern/Levinson.tla, spec/kern/Toeplitz.tla.  TLC enumerates every lag
sequence of the bounded universe, checks the envelope invariants on the model, and
every state it visits is replayed into the real LEVINSON / HERMTOEP / TOEPLITZ /
CHOLESKY.  Large orders: observation events validated by spec/obj/ObsTrace.tla.
"""
import numpy as np

from .. import core, material as M, tlc
from ..kern_util import call_guard, cmp_vec, cmp_scalar, scale_for, np_int


def levinson_cfg(order, r0set, parts, cplx):
    return tlc._cfg_text(constants={'MaxOrder': order, 'R0Set': set(r0set),
                                    'Parts': '<- %s' % parts, 'Complex': cplx},
                         invariants=['ToeplitzEquation', 'ProductFormula', 'ReflectionBound',
                                     'Stable', 'MinorCheck'])


def lev_entries(rq, cplx):
    """entry paths into LEVINSON for an exact lag sequence"""
    if cplx:
        arr = np.array(M.cq_seq(rq), dtype=complex)
        return [('ndarray-complex', arr)]
    rl = M.real_list(rq)
    big = np.zeros(2 * len(rl))
    big[0::2] = rl
    big[1::2] = 9.0
    return [('list-int', list(rl)),
            ('ndarray-float', np.array(rl, dtype=float)),
            ('ndarray-complex0', np.array(rl, dtype=complex)),
            ('strided-view', big[0::2])]


def replay_levinson(chk, st, cplx):
    from spectrum import LEVINSON
    if st['status'] == 'ovf':
        chk.skip('levinson-ovf')
        return
    r = st['r']
    k = len(st['A'])
    expA = np.array(M.cq_seq(st['A']), dtype=complex)
    expRef = np.array(M.cq_seq(st['ref']), dtype=complex)
    expP = float(M.rat(st['P']))
    mode = 'complex' if cplx else 'real'
    for ename, arr in lev_entries(r, cplx):
        case = {'kernel': 'LEVINSON', 'r': [M.cq(v) for v in r], 'complex': cplx, 'entry': ename,
                'status': st['status'], 'expect': {'A': expA, 'P': expP, 'ref': expRef}}
        # values, singularity allowed (the recursion runs to the end whatever the sign of P)
        ok, res = call_guard(LEVINSON, arr, allow_singularity=True)
        chk.evaluations += 1
        if not ok:
            chk.violation('LEVINSON:raised-with-allow_singularity:%s:%s' % (mode, ename),
                          'LEVINSON(r, allow_singularity=True) raised %r' % (res,), case)
            continue
        A, P, ref = res
        bad = (cmp_vec(A, expA) or cmp_scalar(P, expP) or cmp_vec(ref, expRef))
        if bad:
            chk.violation('LEVINSON:values:%s:%s:%s' % (mode, ename, st['status']),
                          'LEVINSON returns (a,P,k) that do not solve T[1,a]=[P,0..] for r=%s (%s)'
                          % (case['r'], bad), dict(case, observed={'A': A, 'P': P, 'ref': ref}))
        if not cplx and ename != 'ndarray-complex0' and k > 0:
            if np.iscomplexobj(A) or np.iscomplexobj(ref):
                chk.violation('LEVINSON:dtype:real', 'real autocorrelation gives complex coefficients', case)
        # raise / no raise without allow_singularity (default, and the flag given as any falsy value)
        cntf = getattr(chk, '_c10_flag', 0)
        chk._c10_flag = cntf + 1
        flag = [None, False, 0, np.bool_(False)][cntf % 4]
        ok, res = call_guard(LEVINSON, arr) if flag is None else call_guard(LEVINSON, arr, allow_singularity=flag)
        if st['status'] == 'indefinite' and ok:
            chk.violation('LEVINSON:no-raise-indefinite:%s:%s' % (mode, ename),
                          'LEVINSON accepts a non positive-definite r=%s (exact P=%s)' % (case['r'], st['P']), case)
        if st['status'] == 'pd' and not ok:
            chk.violation('LEVINSON:raise-on-pd:%s:%s' % (mode, ename),
                          'LEVINSON rejects the positive-definite r=%s: %r' % (case['r'], res), case)
        if st['status'] == 'singular':
            chk.skip('levinson-singular-raise-clause')
        # homogeneity: LEVINSON(c r) = (a, c P, k) for c > 0 - the positive-definiteness test cannot depend on the scale
        if st['status'] in ('pd', 'indefinite') and not isinstance(arr, list):
            cnt = getattr(chk, '_c10_scale', 0)
            chk._c10_scale = cnt + 1
            c = scale_for(cnt)
            ok, res = call_guard(LEVINSON, arr * c)
            if st['status'] == 'pd':
                bad = ('raises %r' % (res,)) if not ok else (cmp_vec(res[0], expA) or cmp_scalar(res[1] / c, expP) or cmp_vec(res[2], expRef))
                if bad:
                    chk.violation('LEVINSON:scaled-input:%s:%s' % (mode, 'raises' if not ok else 'values'),
                                  'LEVINSON(c*r) with c=%g for the positive-definite r=%s: %s' % (c, case['r'], bad), dict(case, scale=c))
            elif ok:
                chk.violation('LEVINSON:scaled-input:%s:no-raise-indefinite' % mode,
                              'LEVINSON accepts c*r with c=%g for the non positive-definite r=%s' % (c, case['r']), dict(case, scale=c))
        # nesting: order argument on a longer sequence
        if st['status'] == 'pd' and k >= 1:
            ext = list(arr) + [arr[-1] * 0 + 1, arr[-1] * 0 - 2]
            ext = ext if isinstance(arr, list) else np.array(ext, dtype=arr.dtype)
            ok, res = call_guard(LEVINSON, ext, order=np_int(k, getattr(chk, '_c10_flag', 0)))
            if not ok:
                chk.violation('LEVINSON:nesting-raise:%s:%s' % (mode, ename),
                              'LEVINSON(r, order=q) raised %r' % (res,), case)
            else:
                A2, P2, ref2 = res
                bad = (cmp_vec(A2, expA) or cmp_scalar(P2, expP) or cmp_vec(ref2, expRef))
                if bad:
                    chk.violation('LEVINSON:nesting:%s:%s' % (mode, ename),
                                  'order-q solution on a longer r differs from the order-q solution (%s)' % bad,
                                  dict(case, order=k))
        # the order-0 solution (the initial state of the recursion in Levinson.tla): no coefficient, P = r[0]
        if st['status'] == 'pd' and k >= 1:
            ok, res = call_guard(LEVINSON, arr, order=np_int(0, getattr(chk, '_c10_flag', 0)))
            r0 = M.cq_complex(r[0]).real
            # (an implementation that refuses order 0 loudly breaks nothing: what must not happen is a wrong answer)
            bad = None if not ok else (None if (len(res[0]) == 0 and len(res[2]) == 0 and abs(complex(res[1]) - r0) <= 1e-12 * abs(r0)) else
                                                        'returns %d coefficients, P=%r (r[0]=%r)' % (len(res[0]), res[1], r0))
            if bad:
                chk.violation('LEVINSON:order-zero:%s' % mode, 'LEVINSON(r, order=0) for r=%s: %s' % (case['r'], bad), dict(case, order=0))
    chk.replayed += 1
    chk.count('levinson-' + mode, 'replayed')
    chk.count('levinson-' + mode, 'status-' + st['status'])
    if k >= 2:
        chk.sample('levinson-' + mode, {'r': [M.cq(v) for v in r], 'A': st['A'], 'P': st['P'], 'status': st['status']}, 2)


def part_levinson(chk, cplx, order, r0set, parts, simulate=None):
    mode = 'complex' if cplx else 'real'
    def after(res):
        p = chk.part('levinson-' + mode)
        if not p.get('status-pd') or not p.get('status-indefinite'):
            raise core.MachineryError('vacuous Levinson exploration: %r' % p)
    return {'module': 'MC_Levinson', 'cfg': levinson_cfg(order, r0set, parts, cplx), 'part': 'levinson-' + mode,
            'replay': lambda st: replay_levinson(chk, st, cplx), 'after': after}


def sampled_jobs(chk):
    """thorough tier: orders up to 6 / complex order 4 with larger lag ranges; the space is too large to
    enumerate, so a state constraint keeps a pseudo-random 1/K of the prefixes beyond length 3 (the kept
    set depends on VERIF_SEED); every kept state is still checked and replayed exactly."""
    js = []
    for cplx, order, parts, k, free in ((False, 6, '-3..3', 3, 3), (True, 4, '-2..2', 12, 2)):
        mod = ('---- MODULE MC_LevSampled ----\nEXTENDS Levinson\nPartsBig == %s\n'
               'HashSeq(s) == LET F[i \\in 0..Len(s)] == IF i = 0 THEN 0 ELSE F[i - 1] + i * (s[i][1][1] + 3 * s[i][2][1] + 7) IN F[Len(s)]\n'
               'Sampled == Len(r) <= %d \\/ (HashSeq(r) + %d) %% %d = 0\n====\n' % (parts, free, chk.seed, k))
        cfg = tlc._cfg_text(constants={'MaxOrder': order, 'R0Set': {2, 3, 5}, 'Parts': '<- PartsBig', 'Complex': cplx},
                            invariants=['ToeplitzEquation', 'ProductFormula', 'ReflectionBound', 'Stable', 'MinorCheck'],
                            constraint='Sampled')
        js.append({'module': 'MC_LevSampled', 'cfg': cfg, 'part': 'levinson-sampled-' + ('complex' if cplx else 'real'),
                   'replay': (lambda st, c=cplx: replay_levinson(chk, st, c)), 'kw': {'extra_files': {'MC_LevSampled.tla': mod}, 'workers': 8}})
    return js


def run(chk):
    from . import C10_toeplitz, C10_obs
    quick = chk.tier == 'quick'
    js = [part_levinson(chk, False, 4, [1, 2, 3], 'PartsQ' if quick else 'PartsT', None),
          part_levinson(chk, True, 3, [1, 2] if quick else [1, 2, 3], 'PartsC' if quick else 'PartsCT')]
    if not quick:
        js += sampled_jobs(chk)
    js += C10_toeplitz.jobs(chk)
    core.run_jobs(chk, js)
    C10_obs.run(chk)
    from .. import session
    session.run_for(chk, 'C10')      # Session.tla: results do not depend on earlier calls
    from .. import units
    units.run_for(chk, 'C10')      # Units.tla: the unit the data are expressed in is not part of the data


def replay_case(chk, sig, case):
    from . import C10_toeplitz, C10_obs
    if sig.startswith('LEVINSON'):
        from fractions import Fraction

        def enc(fr):
            n, d = fr.split('/')
            return (int(n), int(d))
        r = tuple((enc(a), enc(b)) for a, b in case['r'])
        # recompute the expected state with TLC for exactly this prefix
        st = C10_single_state(chk, r, case['complex'])
        replay_levinson(chk, st, case['complex'])
    elif sig.startswith(('HERMTOEP', 'TOEPLITZ', 'CHOLESKY')):
        C10_toeplitz.replay_case(chk, sig, case)
    else:
        C10_obs.replay_case(chk, sig, case)


def C10_single_state(chk, r, cplx):
    """Expected Levinson solution for one lag prefix, from the spec (TLC) itself."""
    order = len(r) - 1
    target = r
    r0 = r[0][0][0]
    parts = sorted({p[0][0] for p in r[1:]} | {p[1][0] for p in r[1:]} | {0})
    extra = {'MC_One.tla': '---- MODULE MC_One ----\nEXTENDS Levinson\nPartsOne == %s\n====\n'
             % tlc.tla_expr(set(parts))}
    cfg = tlc._cfg_text(constants={'MaxOrder': order, 'R0Set': {r0}, 'Parts': '<- PartsOne', 'Complex': cplx})
    res = tlc.run('MC_One', cfg, extra_files=extra, tag='C10-replay')
    try:
        for st in res.states():
            if st['r'] == target:
                return st
    finally:
        tlc.cleanup(res.workdir)
    raise core.MachineryError('replay prefix not reachable in the spec (an earlier stage is not positive definite)')
