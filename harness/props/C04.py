"""C04 - frequency-shift covariance and conjugate symmetry of two-sided spectra.

Kernel level: Periodogram.tla carries the modulation, conjugation and reversal theorems in
the lag domain and their consequences on the 4-point grid (shift by exactly one bin,
mirror) as TLC invariants over every small complex x.  Class level: ObsC04.tla holds which
classes must satisfy which clause; the driver measures, for every class, the rotated /
mirrored / doubled / reversed spectra on float data for all shifts m, even and odd NFFT.
"""
import numpy as np

from .. import core, tlc, obs, zoo
from ..kern_util import call_guard

THEOREMS = ['ModulationTheorem', 'ConjugationTheorem', 'ReversalTheorem', 'ShiftByOneBin4', 'Mirror4', 'GridConsistency24']


def theorem_jobs(chk):
    quick = chk.tier == 'quick'
    js = []
    for cplx, n, parts in ((True, 3 if quick else 4, 'PartsS'), (False, 4 if quick else 5, 'PartsS' if quick else 'PartsQ')):
        cfg = tlc._cfg_text(constants={'MaxN': n, 'MaxM': 0, 'Parts': '<- ' + parts, 'Complex': cplx}, invariants=THEOREMS)
        js.append({'module': 'MC_Periodogram', 'cfg': cfg, 'part': 'kernel-theorems-' + ('complex' if cplx else 'real'), 'replay': None})
    return js


def psd_of(name, x, nfft, over, scale=False, sampling=1.0):
    return np.array(zoo.build(name, x, nfft, sampling, scale, **over).psd)


def run(chk):
    core.run_jobs(chk, theorem_jobs(chk))
    rng = np.random.RandomState(400 + chk.seed)
    batch = obs.Batch('ObsC04')
    quick = chk.tier == 'quick'
    confs = [(40, 64), (41, 63)] if quick else [(40, 64), (41, 63), (48, 48), (50, 101), (64, 128)]
    over = {'corrlag': 10}
    widx = [chk.seed]
    for N, nfft in confs:
        n = np.arange(N)
        for kind in (['noise', 'tones'] if quick else ['noise', 'tones', 'arma']):
            xc = zoo.signal(rng, N, True, kind)
            xr = zoo.signal(rng, N, False, kind)
            shifts = sorted(set([1, nfft // 4, nfft - 1, int(rng.randint(2, nfft))] + ([] if quick else [int(rng.randint(2, nfft)) for _ in range(3)])))
            widx[0] += 1
            for name in zoo.CLASSES + zoo.VARIANTS + (zoo.window_variants(widx[0]) if quick else zoo.window_variants(widx[0], 29)):
                ok0, base = call_guard(psd_of, name, xc.copy(), nfft, over)
                sc = float(np.max(np.abs(base))) if ok0 and len(base) else 1.0
                flat = bool(ok0 and len(base) and (np.max(base.real) - np.min(base.real)) < 1e-6 * sc)
                for m in shifts:
                    xm = xc * np.exp(2j * np.pi * m * n / nfft)
                    ok, p = call_guard(psd_of, name, xm, nfft, over)
                    ev = {'ev': 'shift', 'cls': name, 'nfft': nfft, 'N': N, 'm': int(m), 'raised': not (ok and ok0), 'flat': flat}
                    if ok and ok0 and p.shape == base.shape:
                        ev['dev'] = obs.q(np.max(np.abs(p - np.roll(base, m))) / sc)
                        errs = [np.max(np.abs(p - np.roll(base, s))) for s in range(len(base))]
                        ev['best'] = int(np.argmin(errs))
                    else:
                        ev['dev'] = obs.QCAP if (ok and ok0) else 0
                        ev['best'] = -1
                    batch.add(ev, {'cls': name, 'N': N, 'nfft': nfft, 'm': int(m), 'kind': kind, 'seed': chk.seed})
                ok, p = call_guard(psd_of, name, np.conj(xc), nfft, over)
                ev = {'ev': 'mirror', 'cls': name, 'nfft': nfft, 'N': N, 'raised': not (ok and ok0)}
                ev['dev'] = obs.q(np.max(np.abs(p - base[(-np.arange(len(base))) % len(base)])) / sc) if ok and ok0 and p.shape == base.shape else (obs.QCAP if ok and ok0 else 0)
                batch.add(ev, {'cls': name, 'N': N, 'nfft': nfft, 'kind': kind, 'seed': chk.seed})
                # time reversal (complex and real data)
                for dt, x in (('complex', xc), ('real', xr)):
                    okb, b = call_guard(psd_of, name, x.copy(), nfft, over)
                    okr, r = call_guard(psd_of, name, np.conj(x[::-1]).copy(), nfft, over)
                    ev = {'ev': 'reversal', 'cls': name, 'dt': dt, 'nfft': nfft, 'N': N, 'raised': not (okb and okr),
                          'periodogram': name.startswith('Periodogram')}
                    ev['dev'] = obs.q(np.max(np.abs(r - b)) / max(float(np.max(np.abs(b))), 1e-300)) if okb and okr and r.shape == b.shape else (obs.QCAP if okb and okr else 0)
                    batch.add(ev, {'cls': name, 'dt': dt, 'N': N, 'nfft': nfft, 'kind': kind, 'seed': chk.seed})
                # single-precision complex samples are complex data
                if ':' not in name:
                    ok64, p64 = call_guard(psd_of, name, xc.astype(np.complex64), nfft, over)
                    ev = {'ev': 'dtype', 'cls': name, 'nfft': nfft, 'N': N, 'raised': not (ok0 and ok64)}
                    ev['len_ok'] = bool(ok0 and ok64 and p64.shape == base.shape)
                    ev['dev'] = obs.q(np.max(np.abs(p64 - base)) / sc) if ev['len_ok'] else 0
                    batch.add(ev, {'cls': name, 'N': N, 'nfft': nfft, 'kind': kind, 'seed': chk.seed})
                # real data: one-sided = 2 x first half of the two-sided estimate of the same samples declared complex
                # (with and without frequency scaling, two sampling rates: the clause does not depend on either)
                for scaled, samp in ((False, 1.0), (True, 3.0)):
                    oko, one = call_guard(psd_of, name, xr.copy(), nfft, over, scaled, samp)
                    okt, two = call_guard(psd_of, name, xr.astype(complex), nfft, over, scaled, samp)
                    ev = {'ev': 'onesided', 'cls': name, 'nfft': nfft, 'N': N, 'raised': not (oko and okt), 'scaled': scaled}
                    if oko and okt:
                        h = nfft // 2 + 1 if nfft % 2 == 0 else (nfft + 1) // 2
                        ev['dev'] = obs.q(np.max(np.abs(one - 2 * two[:h])) / max(float(np.max(np.abs(two))), 1e-300)) if len(one) == h and len(two) == nfft else obs.QCAP
                    else:
                        ev['dev'] = 0
                    batch.add(ev, {'cls': name, 'N': N, 'nfft': nfft, 'kind': kind, 'seed': chk.seed, 'scaled': scaled, 'sampling': samp})
    # long records (past 512 / 1024 / 2048 samples: any switch to a fast path) for the model-based classes: the two
    # clauses that relate two different runs of the estimator (real vs complex-declared, time reversal)
    # (4200 samples / NFFT 4201: past 4096 - the library's default NFFT - as well; there the frequency-shift clause too)
    for N, nfft in ((600, 600), (2048, 2048), (4200, 4201)) if quick else ((600, 600), (1030, 1031), (2048, 2048), (4100, 4100), (4200, 4201), (8300, 8400)):
        xr = zoo.signal(rng, N, False, 'arma')
        xc = zoo.signal(rng, N, True, 'arma')
        for name in ('pyule', 'pburg', 'pma', 'parma', 'pminvar', 'pmodcovar', 'pcovar', 'pcorrelogram'):
            if N > 4096:
                ok0, base = call_guard(psd_of, name, xc.copy(), nfft, over)
                sc = float(np.max(np.abs(base))) if ok0 and len(base) else 1.0
                for m in (1, nfft // 3):
                    ok, p = call_guard(psd_of, name, xc * np.exp(2j * np.pi * m * np.arange(N) / nfft), nfft, over)
                    ev = {'ev': 'shift', 'cls': name, 'nfft': nfft, 'N': N, 'm': int(m), 'raised': not (ok and ok0), 'flat': False}
                    if ok and ok0 and p.shape == base.shape:
                        ev['dev'] = obs.q(np.max(np.abs(p - np.roll(base, m))) / sc)
                        ev['best'] = int(m) if ev['dev'] < obs.QCAP else int(np.argmin([np.max(np.abs(p - np.roll(base, s))) for s in range(len(base))]))
                    else:
                        ev['dev'] = obs.QCAP if (ok and ok0) else 0
                        ev['best'] = -1
                    batch.add(ev, {'cls': name, 'N': N, 'nfft': nfft, 'm': int(m), 'kind': 'arma', 'seed': chk.seed})
            oko, one = call_guard(psd_of, name, xr.copy(), nfft, over)
            okt, two = call_guard(psd_of, name, xr.astype(complex), nfft, over)
            ev = {'ev': 'onesided', 'cls': name, 'nfft': nfft, 'N': N, 'raised': not (oko and okt), 'scaled': False}
            h = nfft // 2 + 1 if nfft % 2 == 0 else (nfft + 1) // 2
            ev['dev'] = (obs.q(np.max(np.abs(one - 2 * two[:h])) / max(float(np.max(np.abs(two))), 1e-300)) if len(one) == h and len(two) == nfft else obs.QCAP) if oko and okt else 0
            batch.add(ev, {'cls': name, 'N': N, 'nfft': nfft, 'kind': 'arma', 'seed': chk.seed})
            for dt, x in (('complex', xc), ('real', xr)):
                okb, b = call_guard(psd_of, name, x.copy(), nfft, over)
                okr, r = call_guard(psd_of, name, np.conj(x[::-1]).copy(), nfft, over)
                ev = {'ev': 'reversal', 'cls': name, 'dt': dt, 'nfft': nfft, 'N': N, 'raised': not (okb and okr), 'periodogram': False}
                ev['dev'] = obs.q(np.max(np.abs(r - b)) / max(float(np.max(np.abs(b))), 1e-300)) if okb and okr and r.shape == b.shape else (obs.QCAP if okb and okr else 0)
                batch.add(ev, {'cls': name, 'dt': dt, 'N': N, 'nfft': nfft, 'seed': chk.seed})
    # time reversal of the periodogram with EVERY window name (each window must be symmetric: C20), N even and odd
    for N, nfft in confs[:2]:
        for dt in ('complex', 'real'):
            x = zoo.signal(rng, N, dt == 'complex', 'noise')
            for name in zoo.window_variants(0, 29):
                okb, b = call_guard(psd_of, name, x.copy(), nfft, over)
                okr, r = call_guard(psd_of, name, np.conj(x[::-1]).copy(), nfft, over)
                ev = {'ev': 'reversal', 'cls': name, 'dt': dt, 'nfft': nfft, 'N': N, 'raised': not (okb and okr), 'periodogram': True}
                ev['dev'] = obs.q(np.max(np.abs(r - b)) / max(float(np.max(np.abs(b))), 1e-300)) if okb and okr and r.shape == b.shape else (obs.QCAP if okb and okr else 0)
                batch.add(ev, {'cls': name, 'dt': dt, 'N': N, 'nfft': nfft, 'seed': chk.seed})
    obs.validate(chk, batch, 'obs-symmetries', lambda ev, cl: 'C04:%s:%s:%s:%s' % (ev['ev'], ev['cls'], 'odd' if ev['nfft'] % 2 else 'even', cl),
                 lambda ev, cl: '%s NFFT=%d N=%d: clause "%s" fails: %s' % (ev['cls'], ev['nfft'], ev['N'], cl, ev))
    chk.sample('obs-event', batch.events[0], 1)


def replay_case(chk, sig, case):
    run(chk)
