"""C03 - estimates are quadratic in signal amplitude.

Exact universe: the kernel specifications carry the scaling theorems as TLC invariants
(Correlation.tla: Raw(cx) = |c|^2 Raw(x); YuleWalker.tla: coefficients invariant, variance
x |c|^2) and every x of the universe is replayed together with c*x for c in {-1, 2, i}
(C09 / C12 / C13 / C14 / C16 replays).  Float data and six decades of |c|: every estimator
of the zoo in function and class form, validated against the law table of ObsC03.tla.
"""
import numpy as np

from .. import core, tlc, obs, zoo
from ..kern_util import call_guard


def theorem_jobs(chk):
    quick = chk.tier == 'quick'
    js = []
    for cplx, n in ((False, 4), (True, 3)):
        cfg = tlc._cfg_text(spec='YSpec', constants={'MaxN': n, 'MaxM': 0, 'Parts': '<- PartsS', 'Complex': cplx},
                            invariants=['ScalingTheoremCorrelation', 'ScalingTheoremYuleWalker'])
        js.append({'module': 'MC_YuleWalker', 'cfg': cfg, 'part': 'scaling-theorems-' + ('complex' if cplx else 'real'), 'replay': None})
    return js


def devs(a, b, mod):
    """deviation of a from |c|^e * b for e = 0, 1, 2"""
    return [obs.q(zoo.rel_dev(a, b * mod ** e)) for e in (0, 1, 2)]


def scaling_events(chk, batch, rng, est, form, getter, x, c, dt):
    ok1, o1 = call_guard(getter, x)
    ok2, o2 = call_guard(getter, c * x)      # (a new array: live-object getters rescale their own data instead)
    mod = abs(c)
    if not (ok1 and ok2):
        ev = {'ev': 'scaling', 'est': est, 'form': form, 'key': 'call', 'dt': dt, 'raised': True,
              'dev0': 0, 'dev1': 0, 'dev2': 0, 'devlin': 0, 'same_shape': False, 'exc': repr(o1 if not ok1 else o2)[:120]}
        batch.add(ev, {'est': est, 'form': form, 'c': c, 'seed': chk.seed})
        return
    for key in sorted(o1):
        a, b = np.asarray(o2[key]), np.asarray(o1[key])
        if a.dtype == object or b.dtype == object:
            continue
        d = devs(a, b, mod)
        ev = {'ev': 'scaling', 'est': est, 'form': form, 'key': key, 'dt': dt, 'raised': False,
              'dev0': d[0], 'dev1': d[1], 'dev2': d[2], 'devlin': obs.q(zoo.rel_dev(a, c * b)),
              'same_shape': bool(a.shape == b.shape), 'logc': obs.qs(float(np.log10(mod)), 1e-3)}
        batch.add(ev, {'est': est, 'form': form, 'key': key, 'c': c, 'seed': chk.seed, 'n': len(x)})


def decision_of(d, ip, nfft, crit, thr):
    """The subspace dimension chosen for data d, observed through the public API only: the MUSIC pseudo-spectrum
    obtained with the automatic choice is compared with the ones obtained with each explicit NSIG (MUSIC does not
    depend on the amplitude, so the index of the matching one is the decision).  Returns that NSIG."""
    from spectrum.eigenfre import eigen
    kw = {'threshold': thr} if thr is not None else {'criteria': crit}
    auto = np.asarray(eigen(d, ip, NSIG=None, method='music', NFFT=nfft, **kw)[0])
    best, bestdev = -1, float('inf')
    for ns in range(0, ip):
        try:
            cand = np.asarray(eigen(d, ip, NSIG=ns, method='music', NFFT=nfft)[0])
        except Exception:
            continue
        dev = zoo.rel_dev(cand, auto)
        if dev < bestdev:
            best, bestdev = ns, dev
    if bestdev > 1e-9:
        raise RuntimeError('the automatic choice matches no explicit NSIG (%g)' % bestdev)
    return best


def same_decision(ok1, a, ok2, b):
    return (a if ok1 else -1), (b if ok2 else -2)


def run(chk):
    core.run_jobs(chk, theorem_jobs(chk))
    rng = np.random.RandomState(300 + chk.seed)
    batch = obs.Batch('ObsC03')
    reps = 3 if chk.tier == 'quick' else 12
    for rep in range(reps):
        for dt in ('real', 'complex'):
            cplx = dt == 'complex'
            n = int(rng.choice([48, 64, 96]))
            x = zoo.signal(rng, n, cplx, kind=['noise', 'tones', 'arma'][rep % 3])
            if cplx and rep % 3 == 2:
                # real-valued samples declared complex (complex dtype, zero imaginary part) are complex data: with a complex
                # c the scaled record has the same datatype as the unscaled one
                x = zoo.signal(rng, n, False, kind='arma').astype(complex)
            # (the unit of the record itself is arbitrary: millivolts, kilovolts)
            x = x * [1e-4, 1e4, 1.0][rep % 3]
            # "any non-zero scalar": both ends of twelve decades first, then random moduli
            mod = [1e-6, 1e6][rep] if rep < 2 else 10 ** rng.uniform(-6, 6)
            c = mod * (np.exp(2j * np.pi * rng.rand()) if cplx else rng.choice([-1.0, 1.0]))
            nfft = int(rng.choice([n, 128, 129]))
            for name in zoo.CLASSES + zoo.VARIANTS:
                scaling_events(chk, batch, rng, name, 'class',
                               lambda d, nm=name: zoo.outputs(nm, zoo.build(nm, d, nfft)), x, c, dt)
            # class form, live object: rescaling the data of an existing object (new array, or in place through the
            # data attribute) rescales its estimate like a fresh object on the rescaled data
            for name in zoo.CLASSES:
                for how in ('assign', 'inplace'):
                    def live(d, nm=name, hw=how):
                        p = zoo.build(nm, x.copy(), nfft)
                        p.psd
                        if d is not x:
                            if hw == 'assign':
                                p.data = (c * x)
                            else:
                                if np.iscomplexobj(p.data) or not np.iscomplexobj(c):
                                    try:
                                        p.data *= c
                                    except (ValueError, TypeError):
                                        p.data = c * x        # the attribute hands out a read-only array
                                else:
                                    p.data = c * x
                        return zoo.outputs(nm, p)
                    scaling_events(chk, batch, rng, name, 'live-' + how, live, x, c, dt)
            for name in zoo.FUNCTIONS:
                scaling_events(chk, batch, rng, name, 'function', lambda d, nm=name: zoo.functional(nm, d, nfft), x, c, dt)
            # a long record (past 4096 samples, the library's default NFFT; past 8192 in the thorough tier): class and function form
            if rep == 0 or (rep == 1 and chk.tier != 'quick'):
                nl = 4200 if rep == 0 else 8300
                xl = zoo.signal(rng, nl, cplx, kind='arma')
                for name in zoo.CLASSES:
                    scaling_events(chk, batch, rng, name, 'class', lambda d, nm=name: zoo.outputs(nm, zoo.build(nm, d, nl + 1)), xl, c, dt)
                for name in zoo.FUNCTIONS:
                    scaling_events(chk, batch, rng, name, 'function', lambda d, nm=name: zoo.functional(nm, d, nl + 1), xl, c, dt)
            # decisions: subspace dimension chosen by AIC / MDL, Burg order chosen by a criterion
            import spectrum as sp
            from spectrum.eigenfre import eigen
            for crit in ('aic', 'mdl'):
                def nsig(d):
                    return decision_of(d, 8, 64, crit, None)
                ok1, a = call_guard(nsig, x)
                ok2, b = call_guard(nsig, c * x)
                a, b = same_decision(ok1, a, ok2, b)
                batch.add({'ev': 'decision', 'what': 'NSIG-' + crit, 'dt': dt, 'raised': not (ok1 and ok2),
                           'a': a if ok1 else -1, 'b': b if ok2 else -2}, {'c': c, 'seed': chk.seed})
            # a large data matrix (many singular values enter the criterion)
            if rep < 2 or not cplx:
                xl = zoo.signal(rng, 128, cplx, kind='tones')
                for crit in ('aic', 'mdl'):
                    def nsig_big(d):
                        return decision_of(d, 48, 128, crit, None)
                    ok1, a = call_guard(nsig_big, xl)
                    ok2, b = call_guard(nsig_big, c * xl)
                    a, b = same_decision(ok1, a, ok2, b)
                    batch.add({'ev': 'decision', 'what': 'NSIG-%s-IP48' % crit, 'dt': dt, 'raised': not (ok1 and ok2),
                               'a': a if ok1 else -1, 'b': b if ok2 else -2}, {'c': c, 'seed': chk.seed})
            # ... and chosen by a threshold on the singular values (relative to the smallest one)
            for thr in (1.5, 3.0, 10.0, 50.0):
                def nsig_t(d):
                    return decision_of(d, 8, 64, 'aic', thr)
                ok1, a = call_guard(nsig_t, x)
                ok2, b = call_guard(nsig_t, c * x)
                a, b = same_decision(ok1, a, ok2, b)
                batch.add({'ev': 'decision', 'what': 'NSIG-threshold', 'dt': dt, 'raised': not (ok1 and ok2),
                           'a': a if ok1 else -1, 'b': b if ok2 else -2}, {'c': c, 'threshold': thr, 'seed': chk.seed})
                for meth in ('music', 'ev'):
                    scaling_events(chk, batch, rng, meth + '-threshold', 'function',
                                   lambda d, m=meth, t=thr: {('pseudo_music' if m == 'music' else 'pseudo_ev'):
                                                             eigen(d, 8, NSIG=None, threshold=t, method=m, NFFT=nfft)[0]}, x, c, dt)
            for crit in ('AIC', 'AICc', 'KIC', 'AKICc', 'MDL', 'FPE'):
                ok1, a = call_guard(lambda d: len(sp.arburg(d, 10, crit)[2]), x)
                ok2, b = call_guard(lambda d: len(sp.arburg(d, 10, crit)[2]), c * x)
                batch.add({'ev': 'decision', 'what': 'burg-order-' + crit, 'dt': dt, 'raised': not (ok1 and ok2),
                           'a': a if ok1 else -1, 'b': b if ok2 else -2}, {'c': c, 'seed': chk.seed})
    # order decisions on many short AR-like records (almost-ties between consecutive orders are where an amplitude-dependent
    # stopping rule shows): the order chosen for c*x is the order chosen for x
    import spectrum as sp
    for i in range(300 if chk.tier == 'quick' else 1500):
        n = int(rng.choice([16, 24, 32, 48, 64]))
        if i % 5 == 4:
            e = rng.randn(n + 20)
            xs = np.zeros(n + 20)
            a1, a2 = rng.uniform(-1.2, 1.2), rng.uniform(-0.6, 0.3)
            for t_ in range(2, n + 20):
                xs[t_] = a1 * 0.6 * xs[t_ - 1] + a2 * xs[t_ - 2] + e[t_]
            xs = xs[20:]
        else:
            xs = np.convolve(rng.randn(n + 4), [1, 0.7, 0.3, -0.2, 0.1])[4:n + 4]      # (a flat criterion curve: many almost-ties)
        c = [1e6, 1e-6, 1e3, 37.0][i % 4]
        crit = ('AIC', 'MDL', 'AICc', 'KIC', 'AKICc', 'FPE')[i % 6] if i % 3 == 2 else ('AIC', 'MDL')[i % 2]
        ok1, a = call_guard(lambda d: len(sp.arburg(d, min(8, n // 2 - 2), crit)[2]), xs)
        ok2, b = call_guard(lambda d: len(sp.arburg(d, min(8, n // 2 - 2), crit)[2]), c * xs)
        batch.add({'ev': 'decision', 'what': 'burg-order-' + crit, 'dt': 'real', 'raised': not (ok1 and ok2),
                   'a': a if ok1 else -1, 'b': b if ok2 else -2}, {'c': c, 'seed': chk.seed, 'sweep': i, 'x': xs})
    obs.validate(chk, batch, 'obs-scaling',
                 lambda ev, cl: 'C03:%s:%s:%s:%s' % (ev.get('est', ev.get('what')), ev.get('form', 'decision'), ev.get('key', ''), cl),
                 lambda ev, cl: '%s (%s form, %s data) output %s: clause "%s" fails: %s'
                 % (ev.get('est', ev.get('what')), ev.get('form', '-'), ev['dt'], ev.get('key', ''), cl, ev))
    chk.sample('obs-event', batch.events[3], 1)
    from .. import carrier
    carrier.run_for(chk, 'C03')      # Carrier.tla: an amplitude is a value, whatever container carries the samples


def replay_case(chk, sig, case):
    run(chk)
