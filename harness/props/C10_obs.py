"""C10 beyond the exact universe: orders up to 40, float data -> observation events (ObsC10.tla)."""
import numpy as np

from .. import obs
from ..kern_util import call_guard


def biased_acf(x, maxlag):
    n = len(x)
    return np.array([np.sum(x[k:] * np.conj(x[:n - k])) / n for k in range(maxlag + 1)])


def herm_toeplitz(r):
    n = len(r)
    T = np.empty((n, n), dtype=complex)
    for i in range(n):
        for j in range(n):
            T[i, j] = r[i - j] if i >= j else np.conj(r[j - i])
    return T


def lev_event(r, kind, cplx, order):
    from spectrum import LEVINSON
    ev = {'ev': 'levinson', 'kind': kind, 'cplx': bool(cplx), 'n': int(order)}
    ok, res = call_guard(LEVINSON, r.copy())
    ok2, res2 = call_guard(LEVINSON, r.copy(), allow_singularity=True)
    ev['raised'] = not ok
    ev['raised_allow'] = not ok2
    if ok:
        A, P, k = res
        a = np.concatenate(([1.0], A))
        T = herm_toeplitz(r)
        rhs = np.zeros(len(r), dtype=complex)
        rhs[0] = P
        r0 = abs(r[0])
        ev['resid'] = obs.q(np.max(np.abs(T @ a - rhs)) / r0)
        ev['pform'] = obs.q(abs(P - r[0].real * np.prod(1 - np.abs(k) ** 2)) / r0)
        ev['ppos'] = bool(np.real(P) > 0)
        ev['maxk_ppm'] = obs.q(np.max(np.abs(k)), 1e-6)
        ev['stable'] = bool(np.max(np.abs(np.roots(a))) < 1) if len(a) > 1 else True
        ev['len_a'] = int(len(A))
        ev['len_k'] = int(len(k))
        ev['realout'] = bool(np.isrealobj(A) and np.isrealobj(k))
        qn = max(1, order // 2)
        okn, resn = call_guard(LEVINSON, r.copy(), order=qn)
        oks, ress = call_guard(LEVINSON, r[:qn + 1].copy())
        if okn and oks:
            ev['nest'] = obs.q(max(np.max(np.abs(resn[2] - k[:qn])), np.max(np.abs(resn[0] - ress[0])),
                                   abs(resn[1] - ress[1]) / r0))
        else:
            ev['nest'] = obs.QCAP
    else:
        for f in ('resid', 'pform', 'maxk_ppm', 'nest', 'len_a', 'len_k'):
            ev[f] = 0
        ev['ppos'] = ev['stable'] = ev['realout'] = False
    return ev


def solver_event(which, n, f, resid_of):
    ev = {'ev': 'solver', 'which': which, 'n': int(n)}
    ok, x = call_guard(f)
    ev['raised'] = not ok
    if ok:
        x = np.asarray(x)
        ev['len_x'] = int(x.shape[0])
        ev['resid'] = obs.q(resid_of(x)) if x.shape[0] == n and np.all(np.isfinite(x)) else obs.QCAP
    else:
        ev['len_x'] = 0
        ev['resid'] = 0
    return ev


def make_events(chk):
    from spectrum.toeplitz import HERMTOEP, TOEPLITZ
    from spectrum import CHOLESKY
    rng = np.random.RandomState(1000 + chk.seed)
    batch = obs.Batch('ObsC10')
    orders = list(range(1, 40)) if chk.tier == 'quick' else list(range(1, 40)) * 6
    for order in orders:
        for cplx in (False, True):
            n = 3 * order + 8
            kind_data = rng.randint(3)
            x = rng.randn(n)
            if kind_data == 1:   # tones in noise
                t = np.arange(n)
                x = np.cos(0.7 * t) + 0.5 * np.cos(1.9 * t + 1) + 0.3 * rng.randn(n)
            elif kind_data == 2:  # integer valued
                x = rng.randint(-5, 6, n).astype(float)
                x[0] += 1
            if cplx:
                x = x + 1j * rng.randn(n)
            r = biased_acf(x, order)
            r[0] = r[0].real * 1.02   # small noise floor: clearly positive definite
            if not cplx:
                r = r.real.copy()
            batch.add(lev_event(r, 'pd', cplx, order), {'r': r, 'order': order})
            # clearly indefinite: break |r_j| <= r_0 at a random lag
            rb = r.copy()
            j = rng.randint(1, order + 1)
            rb[j] = 1.5 * abs(r[0]) * (1 if not cplx else np.exp(1j * rng.rand()))
            batch.add(lev_event(rb, 'indef', cplx, order), {'r': rb, 'order': order})
            # solvers on the same positive-definite matrix
            m = order + 1
            z = rng.randn(m) + (1j * rng.randn(m) if cplx else 0)
            T = herm_toeplitz(r.astype(complex))
            zn = np.max(np.abs(z))
            batch.add(solver_event('HERMTOEP', m, lambda: HERMTOEP(r[0].real, r[1:].astype(complex), z.astype(complex)),
                                   lambda xs: np.max(np.abs(T @ xs - z)) / zn), {'r': r, 'z': z})
            if m <= 24:
                for method in ('scipy', 'numpy', 'numpy_solver'):
                    Tm = T if cplx else T.real.copy()
                    batch.add(solver_event('CHOLESKY:' + method, m, lambda: CHOLESKY(Tm.copy(), z.copy(), method),
                                           lambda xs: np.max(np.abs(T @ xs - z)) / zn), {'A': Tm, 'b': z, 'method': method})
            if not cplx:
                # general diagonally dominant real Toeplitz: all pivots positive
                tc = rng.randn(order)
                tr = rng.randn(order)
                t0 = 1.0 + np.sum(np.abs(tc)) + np.sum(np.abs(tr))
                G = np.empty((m, m))
                for i in range(m):
                    for jj in range(m):
                        G[i, jj] = t0 if i == jj else (tc[i - jj - 1] if i > jj else tr[jj - i - 1])
                zr = rng.randn(m)
                batch.add(solver_event('TOEPLITZ', m, lambda: TOEPLITZ(t0, tc, tr, zr),
                                       lambda xs: np.max(np.abs(G @ xs - zr)) / np.max(np.abs(zr))),
                          {'t0': t0, 'tc': tc, 'tr': tr, 'z': zr})
    return batch


def sig(ev, clause):
    if ev['ev'] == 'levinson':
        return 'OBS:LEVINSON:%s:%s:%s' % (ev['kind'], clause, 'complex' if ev['cplx'] else 'real')
    return 'OBS:%s:%s' % (ev['which'], clause)


def run(chk):
    batch = make_events(chk)
    obs.validate(chk, batch, 'obs-large-orders', sig,
                 lambda ev, cl: '%s of order %s fails clause "%s" (event %s)' % (ev.get('which', 'LEVINSON'), ev['n'], cl, ev))
    chk.sample('obs-event', batch.events[10], 1)


def replay_case(chk, sig_, case):
    # observation cases are regenerated deterministically from the seed: re-run the batch
    run(chk)
