def run(chk):
    pass
def replay_case(chk, sig, case):
    pass
