"""C06 - side conversions are lossless, length-consistent and axis-aligned.

Spec: spec/obj/Axis.tla (layouts, bins, the four elementary conversions) and
spec/obj/SidesConv.tla (a stored vector under every sequence of `sides` assignments).
TLC checks the C06 clauses on the model; every state (= one history) is replayed on a
real Spectrum object: stored vector after the assignments, get_converted_psd(s) for every
s, frequencies(s) against the spec's bins, the tools helpers on every one-step
conversion, arma2psd(sides='centerdc').
"""
import numpy as np

from .. import core, tlc, obs
from ..kern_util import call_guard, cmp_vec, scale_for, SCALES

SAMPLINGS = (1.0, 4.0)


def parity(n):
    return 'even' if n % 2 == 0 else 'odd'


def bins(s, n):
    ln = n if s != 'onesided' else (n // 2 + 1 if n % 2 == 0 else (n + 1) // 2)
    return [(j - n // 2) if s == 'centerdc' else j for j in range(ln)]


def make_object(n, dt, sampling):
    from spectrum import Spectrum
    N = max(n, 2)
    data = np.arange(1.0, N + 1)
    if dt == 'complex':
        data = data + 1j
    return Spectrum(data, NFFT=n, sampling=sampling)


def replay_state(chk, st, table):
    n, dt, b, sides, hist = st['n'], st['dt'], st['b'], st['sides'], st['hist']
    default = 'onesided' if dt == 'real' else 'twosided'
    exp = np.array(st['vec'], dtype=float)
    orig = np.array(table[(n, dt, b, default)], dtype=float)
    par = parity(n)
    sampling = SAMPLINGS[(n + b + len(hist)) % 2]
    # conversions are linear: every third state is replayed with the stored vector scaled by a power of two far
    # from 1 (results un-scaled before comparison), which exposes absolute tolerances inside the conversions
    scale = scale_for(n + b) if (n + b + len(hist)) % 3 == 2 else 1.0
    case = {'n': n, 'dt': dt, 'basis': b, 'hist': list(hist), 'sampling': sampling, 'expect': exp, 'scale': scale}
    steps = '->'.join([default] + list(hist)) if hist else default
    # the stored vector as it may be typed: basis vectors are 0/1, i.e. a list of python ints or an integer array (every
    # fourth unscaled state) - halving an entry of such a vector must not truncate it
    # (the basis vectors of the model carry the value 2 so that the model stays integral; an odd value shows truncation)
    vec = orig * scale
    kindv = (n + b + len(hist)) % 8
    if scale == 1.0 and kindv in (1, 5) and np.all(orig * 1.5 == np.round(orig * 1.5)):
        scale = 1.5
        case['scale'] = scale
        vec = [int(v) for v in orig * 1.5] if kindv == 1 else (orig * 1.5).astype(np.int64)
        case['stored_as'] = 'list of ints' if kindv == 1 else 'int64 array'
    try:
        p = make_object(n, dt, sampling)
        try:
            p.psd = vec
        except Exception:
            if 'stored_as' not in case:
                raise
            # integer-typed vectors refused loudly: not a violation, store the same values as floats
            chk.skip('C06: integer-typed PSD vector refused', 1)
            p = make_object(n, dt, sampling)
            p.psd = np.asarray(vec, dtype=float)
    except Exception as e:
        raise core.MachineryError('cannot build Spectrum(n=%d, %s): %r' % (n, dt, e))
    if p.NFFT != n or p.sides != default:
        chk.violation('C06:store:%s:%s' % (dt, par), 'storing a PSD leaves NFFT=%s sides=%s' % (p.NFFT, p.sides), case)
        return
    chk.evaluations += 1
    prev = default
    failed = False
    for s in hist:
        ok, res = call_guard(setattr, p, 'sides', s)
        if not ok:
            chk.violation('C06:sides-setter:%s->%s:%s:%s:raises' % (prev, s, dt, par),
                          'assigning sides=%s (from %s, NFFT=%d) raises %r' % (s, prev, n, res), case)
            failed = True
            break
        prev = s
    if failed:
        return
    last = hist[-1] if hist else default
    first_from = hist[-2] if len(hist) >= 2 else default
    obsv = p._Spectrum__psd if hasattr(p, '_Spectrum__psd') else p.psd
    obsv = np.asarray(obsv, dtype=float) / scale if obsv is not None else obsv
    kind = 'direct' if len(hist) <= 1 else 'path'
    if p.sides != last:
        chk.violation('C06:sides-attr:%s:%s' % (dt, par), 'sides reads %s after assigning %s' % (p.sides, last), case)
    bad = cmp_vec(obsv, exp, tol=1e-12, name='psd')
    if bad:
        lenbad = np.asarray(obsv).shape != exp.shape
        if len(hist) <= 1:
            sig = 'C06:sides-setter:%s->%s:%s:%s:%s' % (default, last, dt, par, 'length' if lenbad else 'values')
        else:
            sig = 'C06:sides-setter:path:%s:%s:%s:%s' % (steps, dt, par, 'length' if lenbad else 'values')
        chk.violation(sig, 'after sides assignments %s (NFFT=%d, basis entry %d) the stored PSD is %s, expected %s'
                      % (steps, n, b, np.asarray(obsv).tolist(), exp.tolist()), dict(case, observed=obsv))
    # frequencies(): length and bins, for the current layout and for every explicit layout
    for s in ([None] + sorted(['onesided', 'twosided', 'centerdc'])):
        if s == 'onesided' and dt == 'complex':
            continue
        target = s or last
        ok, f = call_guard(p.frequencies, s) if s else call_guard(p.frequencies)
        eb = np.array(bins(target, n), dtype=float) * sampling / n
        if not ok:
            chk.violation('C06:frequencies:%s:%s:raises' % (target, par), 'frequencies(%s) raises %r' % (s, f), case)
            continue
        badf = cmp_vec(np.array(f, dtype=float), eb, tol=1e-12, name='frequencies')
        if badf:
            lenbad = len(f) != len(eb)
            chk.violation('C06:frequencies:%s:%s:%s' % (target, par, 'length' if lenbad else 'values'),
                          'frequencies(%s) for NFFT=%d, sampling=%s is %s, expected %s (%s)'
                          % (target, n, sampling, list(f), eb.tolist(), badf), dict(case, sides_arg=s))
    # get_converted_psd(s): pure, equals the direct conversion
    if not bad:
        for s in ('onesided', 'twosided', 'centerdc'):
            if s == 'onesided' and dt == 'complex':
                ok, res = call_guard(p.get_converted_psd, s)
                if ok and res is not None:
                    chk.violation('C06:get_converted:complex->onesided:accepted',
                                  'get_converted_psd("onesided") yields a vector for complex data', case)
                continue
            e2 = np.array(table[(n, dt, b, s)], dtype=float)
            ok, res = call_guard(p.get_converted_psd, s)
            if not ok:
                chk.violation('C06:get_converted:%s->%s:%s:%s:raises' % (last, s, dt, par),
                              'get_converted_psd(%s) from %s raises %r' % (s, last, res), case)
                continue
            res = np.asarray(res, dtype=float) / scale if res is not None else res
            b2 = cmp_vec(res, e2, tol=1e-12, name='converted')
            if b2:
                lenbad = np.asarray(res).shape != e2.shape
                chk.violation('C06:get_converted:%s->%s:%s:%s:%s' % (last, s, dt, par, 'length' if lenbad else 'values'),
                              'get_converted_psd(%s) from %s (NFFT=%d, basis %d) is %s, expected %s'
                              % (s, last, n, b, np.asarray(res).tolist(), e2.tolist()), dict(case, target=s, observed=res))
            # purity
            after = np.asarray(p._Spectrum__psd if hasattr(p, '_Spectrum__psd') else p.psd) / scale
            if p.sides != last or cmp_vec(after, exp, tol=1e-12):
                chk.violation('C06:get_converted:mutates:%s->%s:%s' % (last, s, dt),
                              'get_converted_psd(%s) changed the object' % s, dict(case, target=s))
    chk.replayed += 1
    chk.count('sides-' + dt, 'replayed')
    chk.count('sides-' + dt, 'hist-len-%d' % len(hist))
    if len(hist) == 3 and n in (5, 6):
        chk.sample('history-' + dt, {'n': n, 'basis': b, 'hist': list(hist), 'expected_vec': st['vec']}, 2)


HELPERS = {('onesided', 'twosided'): 'onesided_2_twosided', ('twosided', 'onesided'): 'twosided_2_onesided',
           ('twosided', 'centerdc'): 'twosided_2_centerdc', ('centerdc', 'twosided'): 'centerdc_2_twosided'}


def check_helpers(chk, table, maxn):
    from spectrum import tools
    for (n, dt, b, s), vec in sorted(table.items()):
        for (fr, to), hname in HELPERS.items():
            if s != fr or (n, dt, b, to) not in table:
                continue
            if 'onesided' in (fr, to) and dt == 'complex':
                continue
            if hname == 'onesided_2_twosided' and n % 2 == 1:
                chk.skip('helper onesided_2_twosided cannot know an odd NFFT')
                continue
            if n < 2:
                continue
            exp = np.array(table[(n, dt, b, to)], dtype=float)
            src = np.array(vec, dtype=float)
            scale = scale_for(n + b) if (n + b) % 3 else 1.0
            case = {'helper': hname, 'n': n, 'dt': dt, 'input': src, 'expect': exp, 'scale': scale}
            ok, res = call_guard(getattr(tools, hname), src * scale)
            if ok and res is not None:
                res = np.asarray(res, dtype=float) / scale
            chk.evaluations += 1
            if not ok:
                if isinstance(res, AssertionError) and n % 2 == 1:
                    chk.skip('helper %s refuses odd length' % hname)
                else:
                    chk.violation('C06:tools.%s:%s:raises' % (hname, parity(n)), '%s raises %r' % (hname, res), case)
                continue
            bad = cmp_vec(res, exp, tol=1e-12, name=hname)
            if bad:
                lenbad = np.asarray(res).shape != exp.shape
                chk.violation('C06:tools.%s:%s:%s' % (hname, parity(n), 'length' if lenbad else 'values'),
                              'tools.%s(%s) = %s, expected %s' % (hname, src.tolist(), np.asarray(res).tolist(), exp.tolist()),
                              dict(case, observed=res))
            chk.count('tools-helpers', 'calls')


def replay_helpers_conv(chk, st):
    """HelpersConv.tla: the helpers on arbitrary (asymmetric) two-sided vectors, at three scales."""
    from spectrum import tools
    n, two = st['n'], np.array(st['two'], dtype=float)
    for hname, exp in (('twosided_2_onesided', st['one']), ('twosided_2_centerdc', st['cen'])):
        exp = np.array(exp, dtype=float)
        for scale in (1.0,) + tuple(SCALES):
            case = {'helper': hname, 'n': n, 'input': two, 'expect': exp, 'scale': scale}
            ok, res = call_guard(getattr(tools, hname), two * scale)
            chk.evaluations += 1
            if not ok:
                chk.violation('C06:tools.%s:%s:raises' % (hname, parity(n)), '%s raises %r' % (hname, res), case)
                continue
            bad = cmp_vec(np.asarray(res) / scale, exp, tol=1e-12, name=hname)
            if bad:
                chk.violation('C06:tools.%s:%s:asymmetric-input%s' % (hname, parity(n), '' if scale == 1.0 else ':scaled'),
                              'tools.%s(%s * %g) / %g = %s, expected %s' % (hname, two.tolist(), scale, scale, (np.asarray(res) / scale).tolist(), exp.tolist()),
                              dict(case, observed=res))
    ok, back = call_guard(tools.centerdc_2_twosided, np.array(st['cen'], dtype=float))
    if not ok or cmp_vec(back, two, tol=0):
        chk.violation('C06:tools.centerdc_2_twosided:%s:asymmetric-input' % parity(n), 'centerdc_2_twosided does not invert twosided_2_centerdc on %s' % two.tolist(),
                      {'helper': 'centerdc_2_twosided', 'n': n, 'input': st['cen'], 'expect': two})
    chk.replayed += 1
    chk.count('helpers-any-vector', 'replayed')


def check_arma2psd_centerdc(chk, table, maxn):
    """arma2psd(sides='centerdc') must be the T->C image of its two-sided output."""
    from spectrum import arma2psd
    for n in range(3, maxn + 1):
        perm = []
        for j in range(n):      # where does two-sided entry j+1 go?
            vec = table[(n, 'complex', j + 1, 'centerdc')]
            perm.append(list(vec).index(2))
        A = np.array([0.5, -0.25 + 0.1j])
        two = arma2psd(A=A, rho=1.0, T=1.0, NFFT=n)
        ok, cen = call_guard(arma2psd, A=A, rho=1.0, T=1.0, NFFT=n, sides='centerdc')
        exp = np.zeros(n)
        for j in range(n):
            exp[perm[j]] = two[j]
        case = {'fn': 'arma2psd', 'NFFT': n, 'A': A, 'expect': exp}
        if not ok:
            chk.violation('C06:arma2psd-centerdc:%s:raises' % parity(n), 'arma2psd(sides=centerdc) raises %r' % (cen,), case)
            continue
        bad = cmp_vec(cen, exp, tol=1e-12)
        if bad:
            chk.violation('C06:arma2psd-centerdc:%s:values' % parity(n),
                          'arma2psd(NFFT=%d, sides="centerdc") is not the centred image of the two-sided spectrum (%s)' % (n, bad),
                          dict(case, observed=cen))
        chk.count('arma2psd-centerdc', 'calls')


def axis_proofs(chk):
    """TLAPS: the rotation index maps are mutually inverse permutations for EVERY NFFT (not only n <= MaxN)."""
    import os
    import re
    import shutil
    import subprocess
    if not shutil.which('tlapm'):
        chk.notes.append('tlapm not found: AxisProofs.tla not re-proved in this run')
        return
    d = tlc.new_workdir('C06-tlaps')
    try:
        p = subprocess.run(['tlapm', '--cleanfp', 'AxisProofs.tla'], cwd=d, stdout=subprocess.PIPE, stderr=subprocess.STDOUT,
                           timeout=600, universal_newlines=True)
        m = re.search(r'All (\d+) obligations? proved', p.stdout)
        if not m:
            raise core.MachineryError('TLAPS did not prove AxisProofs.tla:\n' + p.stdout[-1500:])
        chk.part('axis-proofs-tlaps')['obligations_proved'] = int(m.group(1))
        chk.assumptions.append('TLAPS proved %s obligations of AxisProofs.tla (rotation index maps inverse, in range, one-sided count, centred axis) for all NFFT' % m.group(1))
    finally:
        tlc.cleanup(d)


def replay_tools_idx(chk, st, rng):
    """ToolsIdx.tla (spec growth): cshift / twosided / _swapsides / nextpow2 as index maps."""
    from spectrum import tools
    fn, N, k, mp = st['fn'], st['N'], st['k'], st['map']
    if fn == 'nextpow2':
        ok, res = call_guard(tools.nextpow2, N)
        if not ok or int(res) != mp[0]:
            chk.violation('X06:tools.nextpow2', 'nextpow2(%d) = %r, expected %d' % (N, res, mp[0]), {'n': N})
    else:
        x = np.arange(1, N + 1) * 10 + rng.randint(0, 9, N)
        exp = np.array([x[i - 1] for i in mp])
        f = {'cshift': lambda: tools.cshift(list(x), k), 'twosided': lambda: tools.twosided(x.copy()),
             'swapsides': lambda: tools._swapsides(x.copy())}[fn]
        if fn == 'swapsides' and not hasattr(tools, '_swapsides'):
            chk.skip('private helper _swapsides renamed')
            return
        ok, res = call_guard(f)
        if not ok or cmp_vec(np.asarray(res), exp, tol=0) is not None:
            chk.violation('X06:tools.%s' % fn, 'tools.%s(N=%d, k=%d) = %r, expected %s' % (fn, N, k, res, exp.tolist()), {'x': x, 'k': k})
    chk.count('tools-index-functions', 'replayed')
    chk.replayed += 1


AXIS_SAMPLINGS = (1.0, 2.0, 4.0, 7.0, 0.05, 0.1, 0.3, 3.0, 100.0, 256.0, 1e-3, 44100.0, 48000.0)


def axis_events(chk, prefix='C06', stride=3):
    """ObsC06.tla: the reported axis for NFFT up to 1024 x sampling rates over eight decades (real objects)."""
    from spectrum import Spectrum
    quick = chk.tier == 'quick'
    batch = obs.Batch('ObsC06')
    nffts = list(range(1, 131 if quick else 521)) + [250, 256, 500, 512, 1000, 1001, 1023, 1024]
    # past 4096 (the library's default NFFT) and 8192; the thorough tier also past 16384 and 65536
    nffts += [4097, 4098, 5001, 8192, 8193] + ([] if quick else [16385, 16386, 65537])
    # objects built now and queried only after all the others below have been built and used (objects alive together)
    early = []
    for n, samp, dt in ((7, 3.0, 'real'), (12, 0.1, 'complex'), (33, 44100.0, 'real'), (64, 1.0, 'complex')):
        data = np.arange(1.0, 4.0) + (1j if dt == 'complex' else 0)
        early.append((n, samp, dt, Spectrum(data, NFFT=n, sampling=samp)))
    for n in nffts:
        for si, samp in enumerate(AXIS_SAMPLINGS):
            if quick and n > 16 and (n + si) % stride:
                continue
            for dt in ('real', 'complex'):
                data = np.arange(1.0, 4.0) + (1j if dt == 'complex' else 0)
                ok, p = call_guard(lambda: Spectrum(data, NFFT=n, sampling=samp))
                if not ok:
                    raise core.MachineryError('cannot build Spectrum(NFFT=%d, sampling=%r): %r' % (n, samp, p))
                for sides in ('onesided', 'twosided', 'centerdc'):
                    if sides == 'onesided' and dt == 'complex':
                        continue
                    ev = {'ev': 'axis', 'nfft': n, 'dt': dt, 'sides': sides, 'samp': repr(samp)}
                    ok, f = call_guard(p.frequencies, sides)
                    ev['raised'] = not ok
                    if ok:
                        f = np.asarray(f, dtype=float)
                        eb = np.array(bins(sides, n), dtype=float)
                        ev['len'] = int(len(f))
                        ev['first'] = int(round(f[0] * n / samp)) if len(f) else 0
                        ev['last'] = int(round(f[-1] * n / samp)) if len(f) else 0
                        ev['dev'] = obs.q(np.max(np.abs(f - eb * samp / n)) / samp, 1e-12) if len(f) == len(eb) else 0
                        # no argument = the current layout
                        ok2 = True
                        if sides != ('onesided' if dt == 'real' else 'twosided'):
                            ok2, _ = call_guard(setattr, p, 'sides', sides)
                        ok3, g = call_guard(p.frequencies)
                        ev['noarg_same'] = bool(ok2 and ok3 and np.array_equal(np.asarray(g, dtype=float), f))
                        # a stored vector converted at this NFFT: length of every layout, power, and the way back
                        ev['conv_ok'] = True
                        if sides == 'twosided':
                            def conv(wide=False):
                                ln0 = len(bins('onesided' if dt == 'real' else 'twosided', n))
                                v0 = 1.0 + np.arange(ln0) % 7
                                if wide:
                                    # a spectrum with a dynamic range beyond 1/eps (lines over a numerically silent floor)
                                    v0 = v0 * 10.0 ** (-19.0 * (np.arange(ln0) % 3 == 1)) * 10.0 ** (18.0 * (np.arange(ln0) % 5 == 2))
                                if dt == 'complex':
                                    # the object was built (and its axes were read) for another NFFT: a stored vector of n values
                                    # makes it an n-point spectrum
                                    q = Spectrum(data, NFFT=n + 3, sampling=samp)
                                    for s_ in ('twosided', 'centerdc'):
                                        q.frequencies(s_)
                                    q.psd = v0.copy()
                                    for s_ in ('twosided', 'centerdc'):
                                        fa = np.asarray(q.frequencies(s_), dtype=float)
                                        if len(fa) != n or np.max(np.abs(fa - np.array(bins(s_, n), dtype=float) * samp / n)) > 1e-12 * samp:
                                            return False
                                else:
                                    q = Spectrum(data, NFFT=n, sampling=samp)
                                    q.psd = v0.copy()
                                t = np.asarray(q.get_converted_psd('twosided'), dtype=float)
                                c = np.asarray(q.get_converted_psd('centerdc'), dtype=float)
                                q.sides = 'centerdc'
                                q.sides = 'onesided' if dt == 'real' else 'twosided'
                                back = np.asarray(q.psd, dtype=float)
                                return bool(len(t) == n and len(c) == n and abs(t.sum() - v0.sum()) <= 1e-9 * v0.sum()
                                            and abs(c.sum() - v0.sum()) <= 1e-9 * v0.sum() and back.shape == v0.shape and np.allclose(back, v0, rtol=1e-12, atol=0))
                            okc, good = call_guard(conv)
                            okw, goodw = call_guard(conv, True)
                            ev['conv_ok'] = bool(okc and good and okw and goodw)
                    else:
                        ev.update(len=0, first=0, last=0, dev=0, noarg_same=False, conv_ok=True)
                    batch.add(ev)
    for n, samp, dt, p in early:
        for sides in ('onesided', 'twosided', 'centerdc'):
            if sides == 'onesided' and dt == 'complex':
                continue
            ev = {'ev': 'axis', 'nfft': n, 'dt': dt, 'sides': sides, 'samp': repr(samp), 'late': True}
            ok, f = call_guard(p.frequencies, sides)
            ev['raised'] = not ok
            if ok:
                f = np.asarray(f, dtype=float)
                eb = np.array(bins(sides, n), dtype=float)
                ev.update(len=int(len(f)), first=int(round(f[0] * n / samp)) if len(f) else 0, last=int(round(f[-1] * n / samp)) if len(f) else 0,
                          dev=obs.q(np.max(np.abs(f - eb * samp / n)) / samp, 1e-12) if len(f) == len(eb) else 0, noarg_same=True, conv_ok=True)
            else:
                ev.update(len=0, first=0, last=0, dev=0, noarg_same=False, conv_ok=True)
            batch.add(ev)
    obs.validate(chk, batch, 'axis-large-nfft', lambda ev, cl: '%s:OBS:%s:%s:%s' % (prefix, cl, ev['sides'], parity(ev['nfft'])),
                 lambda ev, cl: 'frequencies(%s) of a %s object with NFFT=%d, sampling=%s: clause "%s" fails: %s'
                 % (ev['sides'], ev['dt'], ev['nfft'], ev['samp'], cl, ev))
    chk.sample('axis-event', batch.events[7], 1)


def sides_before_estimate(chk):
    """`sides` assigned on an estimator object whose PSD is not (or no longer) up to date: the PSD read afterwards is
    the estimate in the requested layout - as long as frequencies(), equal to the direct conversion of the default
    estimate (the conversion clause of C06 on the path where the vector is produced after the assignment)."""
    from spectrum import Periodogram, pburg
    rng = np.random.RandomState(660 + chk.seed)
    for cls, mk in (('Periodogram', lambda x, n: Periodogram(x, NFFT=n, window='hann', scale_by_freq=False)),
                    ('pburg', lambda x, n: pburg(x, 3, NFFT=n, scale_by_freq=False))):
        for n in (16, 17):
            x = rng.randn(16)
            for s in ('twosided', 'centerdc'):
                for how in ('before-first-estimate', 'after-parameter-change'):
                    def scenario():
                        p = mk(x.copy(), n)
                        if how == 'after-parameter-change':
                            p.psd
                            p.sampling = 2.0
                            p.sampling = 1.0
                        p.sides = s
                        v = np.array(p.psd)
                        return v, len(p.frequencies()), p.sides
                    ok, res = call_guard(scenario)
                    ok2, ref = call_guard(lambda: np.array(mk(x.copy(), n).get_converted_psd(s)))
                    chk.evaluations += 1
                    case = {'cls': cls, 'NFFT': n, 'sides': s, 'how': how, 'x': x}
                    if not (ok and ok2):
                        chk.violation('C06:sides-on-stale-object:%s:raises' % cls, 'assigning sides=%s %s raises %r' % (s, how, res if not ok else ref), case)
                        continue
                    v, lf, sd = res
                    if sd == s and (len(v) != lf or cmp_vec(v, ref, tol=1e-10) is not None):
                        chk.violation('C06:sides-on-stale-object:%s:%s' % (cls, parity(n)),
                                      '%s: sides=%s assigned %s, then psd has %d values for %d frequencies / differs from the direct conversion'
                                      % (cls, s, how, len(v), lf), dict(case, observed=v, expect=ref))
    chk.count('sides-on-stale-object', 'scenarios', 16)


def run(chk):
    quick = chk.tier == 'quick'
    axis_proofs(chk)
    axis_events(chk)
    sides_before_estimate(chk)
    rng = np.random.RandomState(600 + chk.seed)
    # (ToolsIdx.tla - cshift / twosided / _swapsides / nextpow2 - is replayed by X06: not part of C06)
    core.run_jobs(chk, [
                        {'module': 'HelpersConv', 'part': 'helpers-any-vector',
                         'cfg': tlc._cfg_text(constants={'MaxN': 8 if quick else 12},
                                              invariants=['FoldKeepsPower', 'FoldLength', 'FoldBySign', 'CentreIsPermutation']),
                         'replay': lambda st: replay_helpers_conv(chk, st)}])
    maxn = 9 if quick else 12
    maxh = 3 if quick else 4
    cfg = tlc._cfg_text(constants={'MaxN': maxn, 'MaxHist': maxh},
                        invariants=['LengthConsistent', 'PowerPreserved', 'PathIndependent', 'RoundTrip',
                                    'ConvertedConsistent', 'AxisAligned', 'EqualSplit'])
    res = chk.tlc('SidesConv', cfg, part='sides')
    try:
        states = list(res.states())
    finally:
        tlc.cleanup(res.workdir)
    table = {}
    for st in states:
        key = (st['n'], st['dt'], st['b'], st['sides'])
        if key in table and table[key] != st['vec']:
            raise core.MachineryError('spec is path dependent?!')
        table[key] = st['vec']
    for st in states:
        replay_state(chk, st, table)
    check_helpers(chk, table, maxn)
    check_arma2psd_centerdc(chk, table, maxn)
    chk.assumptions.append('vectors: basis vectors of every layout (linearity); NFFT in 1..%d; histories of length <= %d' % (maxn, maxh))


def replay_case(chk, sig, case):
    # re-run the whole (cheap) exploration: every case is regenerated from the spec
    run(chk)
