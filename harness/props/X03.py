"""X03 (specification coverage beyond the listed properties) - Spectrogram segment bookkeeping.

Segments.tla: one action per column, slices clipped at the end of the signal, NSeg - 8 columns.
TLC checks the envelope (non-empty slices, hop = ws, full window iff it fits, column count, refusal iff
fewer than 8 hops); every final state is replayed on a real Spectrogram object: shape of `results`,
and column i bit-identical to the Periodogram of exactly the slice the model names.
"""
import contextlib
import io

import numpy as np

from .. import core, tlc
from ..kern_util import call_guard


def replay_state(chk, st, rng):
    from spectrum import Spectrogram, Periodogram
    if st['phase'] == 'loop':
        return
    L, ws, W = st['L'], st['ws'], st['W']
    sig = rng.randn(L)
    sampling = [1.0, 8.0][(L + ws) % 2]
    case = {'L': L, 'ws': ws, 'W': W, 'cols': st['cols'], 'phase': st['phase']}

    def go():
        sp = Spectrogram(sig.copy(), ws=ws, W=W, sampling=sampling)
        with contextlib.redirect_stdout(io.StringIO()):
            sp.periodogram()
        return sp.results
    ok, res = call_guard(go)
    chk.evaluations += 1
    if st['phase'] == 'refused':
        if ok:
            chk.violation('X03:spectrogram:accepts-short-signal', 'Spectrogram.periodogram accepts a signal of fewer than 8 hops (L=%d, ws=%d)' % (L, ws), case)
    elif not ok:
        chk.violation('X03:spectrogram:raises', 'Spectrogram.periodogram raises %r (L=%d, ws=%d, W=%d)' % (res, L, ws, W), case)
    else:
        ncols = len(st['cols'])
        if res.shape != (2 * W + 1, ncols):
            chk.violation('X03:spectrogram:shape', 'results has shape %s, the model says %s' % (res.shape, (2 * W + 1, ncols)), case)
        else:
            for c, (a, b) in enumerate(st['cols']):
                p = Periodogram(sig[a:b].copy(), sampling=sampling, NFFT=4 * W)
                p()
                if not np.array_equal(res[:, c], np.asarray(p.psd), equal_nan=True):
                    chk.violation('X03:spectrogram:column', 'column %d is not the periodogram of signal[%d:%d]' % (c, a, b), dict(case, column=c))
                    break
    chk.replayed += 1
    chk.count('segments', 'replayed')
    chk.count('segments', st['phase'])
    if st['phase'] == 'done' and len(st['cols']) == 2:
        chk.sample('segments', st, 1)


def run(chk):
    quick = chk.tier == 'quick'
    rng = np.random.RandomState(4300 + chk.seed)
    cfg = tlc._cfg_text(constants={'MaxL': 30 if quick else 60, 'MaxWs': 3 if quick else 4, 'MaxW': 4 if quick else 6},
                        invariants=['NonEmpty', 'HopIsWs', 'FullWindowIffFits', 'NeverBeyondSignal', 'ColumnCount', 'TailSkipped', 'Refusal'])
    core.run_jobs(chk, [{'module': 'Segments', 'cfg': cfg, 'part': 'segments', 'replay': lambda st: replay_state(chk, st, rng)}])
    p = chk.part('segments')
    if not p.get('done') or not p.get('refused'):
        raise core.MachineryError('vacuous: %r' % p)


def replay_case(chk, sig, case):
    run(chk)
