"""C13 - Burg models are stable, nested and minimise forward+backward error.

Burg.tla: arburg as a stage machine in exact arithmetic; TLC checks |k|<=1, step-up(ref)=a,
the variance formula and its monotonicity, that the in-place error arrays are the
prediction-error-filter outputs, that the denominator recursion is the stage energy and
that each k satisfies the first-order optimality condition.  Every stage state is
replayed into arburg, _arburg2 and pburg; with a criterion the result must be the spec
state of order len(ref).  N up to 200: ObsC13.tla.
"""
import numpy as np

from .. import core, material as M, tlc, obs
from ..kern_util import fresh, call_guard, cmp_vec, cmp_scalar, entry_variants, live_object_dev, np_int

CRITERIA = ('AIC', 'AICc', 'KIC', 'FPE', 'AKICc', 'MDL')


def expected(st):
    return (np.array(M.cq_seq(st['a'])), float(M.rat(st['rho'])), np.array(M.cq_seq(st['ref'])))


def replay_state(chk, st, cplx, table):
    from spectrum import arburg, pburg
    if st['phase'] != 'run':
        return
    mode = 'complex' if cplx else 'real'
    key = (st['x'], len(st['a']))
    if st['status'] != 'ok':
        chk.skip('burg-' + st['status'])
        return
    table[key] = st
    q = len(st['a'])
    if q == 0:
        return
    expA, expRho, expK = expected(st)
    vals = M.cq_seq(st['x']) if cplx else M.real_list(st['x'])
    counter = getattr(chk, '_c13_counter', 0)
    chk._c13_counter = counter + 1
    for ename, x, tol in entry_variants(vals, cplx, counter, full=chk.tier != 'quick'):
        case = {'x': x, 'entry': ename, 'order': q, 'expect': {'a': expA, 'rho': expRho, 'ref': expK}}
        ok, res = call_guard(arburg, fresh(x), np_int(q, counter))
        chk.evaluations += 1
        if not ok:
            chk.violation('C13:arburg:%s:raises:%s' % (mode, ename), 'arburg raises %r on non-degenerate data (%s input)' % (res, ename), case)
            continue
        a, rho, ref = res
        bad = cmp_vec(a, expA, tol=tol, name='ar') or cmp_scalar(rho, expRho, tol=tol, name='rho') or cmp_vec(ref, expK, tol=tol, name='reflection')
        if bad:
            chk.violation('C13:arburg:%s:values:%s' % (mode, ename), 'arburg(x=%s as %s, %d) is not the Burg model: %s' % (np.asarray(x).tolist(), ename, q, bad),
                          dict(case, observed={'a': a, 'rho': rho, 'ref': ref}))
    xa = np.array(vals, dtype=complex if cplx else float)
    for kw in ({'NFFT': 16}, {'NFFT': 9, 'sampling': 4.0}, {'NFFT': 16, 'sampling': 0.5, 'scale_by_freq': True}):
        ok, obj = call_guard(lambda: pburg(xa.copy(), q, **kw))
        if ok:
            ok, err = call_guard(lambda: obj.psd)
        if not ok:
            chk.violation('C13:pburg:%s:raises' % mode, 'pburg raises', {'x': xa, 'order': q, 'kw': kw})
        else:
            bad = (cmp_vec(obj.ar, expA, name='pburg.ar') or cmp_scalar(obj.rho, expRho, name='pburg.rho')
                   or cmp_vec(obj.reflection, expK, name='pburg.reflection'))
            if bad:
                chk.violation('C13:pburg:%s:values%s' % (mode, ':sampling' if 'sampling' in kw else ''),
                              'pburg(x=%s, %d, %s): %s' % (xa.tolist(), q, kw, bad), {'x': xa, 'order': q, 'kw': kw})
    if q >= 2:
        ok, dev = call_guard(live_object_dev, lambda **kw: pburg(xa.copy(), **dict({'order': q, 'NFFT': 8}, **kw)),
                             [('ar_order', q - 1, 'order'), ('NFFT', 9, 'NFFT'), ('sampling', 2.0, 'sampling'), ('ar_order', q, 'order')])
        if not ok or (dev is not None and dev > 1e-7):
            chk.violation('C13:pburg:%s:live-object' % mode, 'pburg after re-assigning ar_order / NFFT / sampling differs from a fresh object (%r)' % (dev,),
                          {'x': xa, 'order': q})
    chk.replayed += 1
    chk.count('burg-' + mode, 'replayed')
    if q == 2 and len(st['x']) == 5:
        chk.sample('burg-' + mode, {'x': st['x'], 'a': st['a'], 'rho': st['rho'], 'ref': st['ref']}, 1)


def criteria_checks(chk, table, cplx):
    """With a criterion the result is exactly the Burg model of order len(ref) <= p."""
    from spectrum import arburg
    mode = 'complex' if cplx else 'real'
    byx = {}
    for (x, q) in table:
        byx.setdefault(x, []).append(q)
    for x, qs in byx.items():
        N = len(x)
        p = min(max(qs), N - 3)
        if N < 5 or p < 1:
            continue
        xa = np.array(M.cq_seq(x), dtype=complex) if cplx else np.array(M.real_list(x), dtype=float)
        for name in CRITERIA:
            ok, res = call_guard(arburg, xa.copy(), np_int(p, len(name) + p), name)
            chk.evaluations += 1
            if not ok:
                chk.violation('C13:criteria:%s:raises:%s' % (name, mode), 'arburg(criteria=%s) raises %r' % (name, res),
                              {'x': xa, 'order': p, 'criteria': name})
                continue
            a, rho, ref = res
            q = len(ref)
            if (x, q) not in table:
                if q > p:
                    chk.violation('C13:criteria:%s:order-too-large' % name, 'criterion returned order %d > %d' % (q, p), {'x': xa, 'order': p})
                else:
                    chk.skip('criteria-order-not-in-table')
                continue
            expA, expRho, expK = expected(table[(x, q)])
            bad = cmp_vec(a, expA, name='ar') or cmp_scalar(rho, expRho, name='rho') or cmp_vec(ref, expK, name='reflection')
            if bad:
                chk.violation('C13:criteria:%s:%s' % (name, mode),
                              'arburg(x=%s, %d, criteria=%s) returned %d coefficients that are not the order-%d Burg model: %s'
                              % (xa.tolist(), p, name, q, q, bad), {'x': xa, 'order': p, 'criteria': name})
            chk.count('burg-criteria-' + mode, 'checked')
            chk.count('burg-criteria-' + mode, 'selected-order-%d' % q)


def jobs(chk):
    quick = chk.tier == 'quick'
    inv = ['ReflectionAtMostOne', 'StepUpIsAr', 'VarianceFormula', 'VarianceNonIncreasing', 'ErrorsAreFilterOutputs',
           'DenominatorIsEnergy', 'MarpleRecursionIsExact', 'StageOptimal']
    js = []
    for cplx, minn, maxn, order, parts in ((False, 3, 5 if quick else 6, 3, 'PartsS' if quick else 'PartsQ'),
                                           (True, 3, 4, 2, 'Parts01' if quick else 'PartsS')):
        cfg = tlc._cfg_text(constants={'MinN': minn, 'MaxN': maxn, 'MaxOrder': order, 'Parts': '<- ' + parts, 'Complex': cplx},
                            invariants=inv)
        table = {}
        js.append({'module': 'MC_Burg', 'cfg': cfg, 'part': 'burg-' + ('complex' if cplx else 'real'),
                   'replay': (lambda st, c=cplx, t=table: replay_state(chk, st, c, t)),
                   'after': (lambda res, c=cplx, t=table: criteria_checks(chk, t, c))})
    return js


def stage_minimiser_dev(x, k):
    """Largest |k_i - argmin_k sum_n |f_{i-1}[n] + k b_{i-1}[n-1]|^2 + |b_{i-1}[n-1] + conj(k) f_{i-1}[n]|^2|, the
    stage errors f, b being the outputs of the prediction-error filters built from the *returned* k_1..k_{i-1}
    (float transcription of the envelope of Burg.tla: StageOptimal)."""
    f = np.asarray(x, dtype=complex).copy()
    b = f.copy()
    worst = 0.0
    for i in range(len(k)):
        ff, bb = f[1:], b[:-1]
        den = np.sum(np.abs(ff) ** 2 + np.abs(bb) ** 2)
        if den <= 0:
            break
        kopt = -2 * np.sum(ff * np.conj(bb)) / den
        worst = max(worst, abs(kopt - k[i]))
        f, b = ff + k[i] * bb, bb + np.conj(k[i]) * ff
    return worst


def obs_events(chk):
    from spectrum import arburg
    rng = np.random.RandomState(1300 + chk.seed)
    batch = obs.Batch('ObsC13')
    reps = 30 if chk.tier == 'quick' else 300
    sizes = [4, 6, 9, 16, 33, 64, 127, 128, 129, 200, 257, 520, 1030]
    grid = [(N, c, None, None) for N in sizes for c in (False, True)]
    # orders on both sides of 16 / 32 (any periodic or size-dependent branch of the recursion), the largest
    # admissible order, and strongly predictable data (reflection coefficients of modulus close to 1)
    grid += [(N, c, p, 0) for N, p in ((33, 16), (64, 17), (64, 33), (128, 40), (20, 18), (9, 7)) for c in (False, True)]
    # (predictable data at every order: until the repair d8be8e1 the denominator was updated by Marple's order recursion, which
    #  loses its digits as the error vanishes - 2e-5 at p = 8, 6e-4 at p = 40 - and such records were used at orders <= 4 only)
    grid += [(N, c, p, 3) for N, p in ((16, 2), (33, 3), (64, 4), (200, 4), (64, 8), (20, 18), (128, 40)) for c in (False, True)]
    # a decaying transient (products of late samples underflow), integer counts on a large offset and a tone 110 dB above
    # the noise (variance below 1e-10 of the power): low orders, clauses conditioned on sum 1/(1-|k_i|^2)
    grid += [(N, c, p, kd) for kd in (4, 5, 6) for N, p in ((64, 4), (160, 3), (64, 12)) for c in (False, True)]
    for rep in range(reps + len(grid)):
        if rep < len(grid):
            N, cplx, p_fixed, kind_fixed = grid[rep]
        else:
            N = int(rng.choice(sizes))
            cplx = bool(rng.randint(2))
            p_fixed = kind_fixed = None
        p = int(rng.randint(1, min(N - 2, 40) + 1)) if p_fixed is None else p_fixed
        kind = int(rng.randint(4)) if kind_fixed is None else kind_fixed
        if kind == 3 and kind_fixed is None:
            N = max(N, 16)
            p = min(p, N - 2)
        t = np.arange(N)
        if kind == 4:
            x = rng.randn(N) * np.exp(-2.5 * t)
        elif kind == 5:
            x = 2e6 + rng.randint(-3, 4, N).astype(float)
        elif kind == 6:
            x = np.cos(0.9 * t + 0.3) + 3e-6 * rng.randn(N)
        elif kind == 0:
            x = rng.randn(N)
        elif kind == 1:
            x = np.cos(0.6 * t) + 0.5 * np.cos(1.7 * t + 1) + 0.1 * rng.randn(N)
        elif kind == 2:
            x = rng.randint(-3, 4, N).astype(float) + 0.01 * rng.randn(N)
        else:
            x = np.cos(0.9 * t + 0.3) + 1e-3 * rng.randn(N)          # one tone 60 dB above the noise
        if cplx and kind in (4, 5, 6):
            x = {4: x + 1j * rng.randn(N) * np.exp(-2.5 * t), 5: x + 1j * rng.randint(-3, 4, N),
                 6: np.exp(1j * (0.9 * t + 0.3)) + 3e-6 * (rng.randn(N) + 1j * rng.randn(N))}[kind]
        elif cplx:
            if kind == 3:
                x = np.exp(1j * (0.9 * t + 0.3)) + 1e-3 * (rng.randn(N) + 1j * rng.randn(N))
            else:
                x = x + 1j * (rng.randn(N) if kind != 1 else np.sin(0.6 * t) + 0.1 * rng.randn(N))
        ev = {'ev': 'burg', 'N': N, 'p': p, 'cplx': cplx, 'kind': kind}
        # integer-valued data: the same samples stored in a narrow integer dtype must give the same model
        if kind == 2 and not cplx:
            xi = np.round(x * 400).astype(np.int16)
            oka, ra = call_guard(arburg, xi.copy(), p)
            okb, rb = call_guard(arburg, xi.astype(float), p)
            ev['int_dev'] = obs.q(max(np.max(np.abs(ra[0] - rb[0])), abs(ra[1] - rb[1]) / max(abs(rb[1]), 1e-300))) if oka and okb else (obs.QCAP if okb else 0)
        else:
            ev['int_dev'] = 0
        ok, res = call_guard(arburg, x.copy(), p)
        ev['raised'] = not ok
        if ok:
            a, rho, k = res
            poly = np.concatenate(([1.0], a))
            ev['maxk_ppm'] = obs.q(np.max(np.abs(k)), 1e-6)
            ev['maxroot_ppm'] = obs.q(np.max(np.abs(np.roots(poly))), 1e-6)
            e0 = np.mean(np.abs(x) ** 2)
            ev['rho_dev'] = obs.q(abs(rho - e0 * np.prod(1 - np.abs(k) ** 2)) / e0)
            cond = float(np.sum(1.0 / np.maximum(1 - np.abs(k) ** 2, 1e-300)))
            ev['rho_rel_ratio'] = obs.q(abs(rho - e0 * np.prod(1 - np.abs(k) ** 2)) / max(abs(rho), 1e-300) / (1e-14 * cond + 1e-9), 1e-3)
            ev['min_dev'] = obs.q(stage_minimiser_dev(x, k))
            rhos = [e0]
            nest = 0.0
            for q in range(1, p + 1):
                okq, rq = call_guard(arburg, x.copy(), q)
                if not okq:
                    nest = float('inf')
                    break
                rhos.append(rq[1])
                nest = max(nest, float(np.max(np.abs(rq[2] - k[:q]))))
            ev['nest_dev'] = obs.q(nest)
            ev['nonincreasing'] = bool(all(rhos[i + 1] <= rhos[i] * (1 + 1e-12) for i in range(len(rhos) - 1)))
            ev['lens'] = bool(len(a) == p and len(k) == p)
            cname = CRITERIA[rep % len(CRITERIA)]
            okc, rc = call_guard(arburg, x.copy(), p, cname)
            if okc:
                qsel = len(rc[2])
                if qsel == 0:
                    ev['crit_dev'] = obs.q(abs(rc[1] - e0) / e0)
                else:
                    okr, rr = call_guard(arburg, x.copy(), qsel)
                    ev['crit_dev'] = obs.q(max(np.max(np.abs(rc[0] - rr[0])), abs(rc[1] - rr[1]) / e0, np.max(np.abs(rc[2] - rr[2])))) if okr else obs.QCAP
                ev['crit_order_ok'] = bool(qsel <= p and len(rc[0]) == qsel)
            else:
                ev['crit_dev'] = 0
                ev['crit_order_ok'] = bool(N - p - 2 <= 0)   # criteria undefined when N-p-2 <= 0
        else:
            ev.update(maxk_ppm=0, maxroot_ppm=0, rho_dev=0, min_dev=0, nest_dev=0, nonincreasing=False, lens=False, crit_dev=0, crit_order_ok=False)
        batch.add(ev, {'N': N, 'p': p, 'cplx': cplx, 'kind': kind, 'seed': chk.seed, 'rep': rep})
    obs.validate(chk, batch, 'obs-large-N', lambda ev, cl: 'C13:OBS:%s:%s' % (cl, 'complex' if ev['cplx'] else 'real'),
                 lambda ev, cl: 'arburg N=%d order=%d: clause "%s" fails: %s' % (ev['N'], ev['p'], cl, ev))
    chk.sample('obs-event', batch.events[0], 1)


def replay_criteria(chk, st):
    """Criteria.tla (spec growth): the real Criteria object fed the same value order must stop at the same calls."""
    from spectrum.criteria import Criteria
    hist, ret = st['hist'], st['ret']
    if not hist:
        return
    c = Criteria('AIC', 20)
    got = []
    for v in hist:
        # the object stores whatever it is given through .data; feed the abstract values directly
        prev = c.data
        c.data = float(v)
        got.append(not (prev is not None and c.data > c.old_data) if prev is not None else not (c.data > c.old_data))
    exp = list(ret)
    regs_ok = c.data == float(hist[-1]) and (len(hist) < 2 or c.old_data == float(hist[-2]))
    if got != exp or not regs_ok:
        chk.violation('X07:criteria-object:stop-rule', 'Criteria registers / stop decisions %s differ from the model %s for values %s'
                      % (got, exp, list(hist)), {'values': list(hist), 'expect': exp, 'observed': got})
    chk.count('criteria-object', 'replayed')
    chk.replayed += 1


def criteria_job(chk):
    extra = {'MC_Criteria.tla': '---- MODULE MC_Criteria ----\nEXTENDS Criteria\nVals == -2..3\n====\n'}
    cfg = tlc._cfg_text(constants={'Values': '<- Vals', 'MaxCalls': 4}, invariants=['StopRule', 'Registers'])
    return {'module': 'MC_Criteria', 'cfg': cfg, 'part': 'criteria-object', 'replay': lambda st: replay_criteria(chk, st),
            'kw': {'extra_files': extra}}


def run(chk):
    core.run_jobs(chk, jobs(chk))      # (Criteria.tla and the private _arburg2 are replayed by X07: not part of C13)
    obs_events(chk)
    from .. import session
    session.run_for(chk, 'C13')      # Session.tla: results do not depend on earlier calls
    from .. import quiet
    quiet.run_for(chk, 'C13')      # Quiet.tla: asking for diagnostics is not an argument
    from .. import units
    units.run_for(chk, 'C13')      # Units.tla: the unit the data are expressed in is not part of the data
    from .. import carrier
    carrier.run_for(chk, 'C13')      # Carrier.tla: a sample denotes its value whatever container carries it


def replay_case(chk, sig, case):
    run(chk)
