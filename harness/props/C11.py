"""C11 - linear-prediction representations convert losslessly into each other.

LinPred.tla (on top of Levinson.tla): every positive-definite state is a consistent triple
(autocorrelation, polynomial + error, reflection coefficients + zero lag); TLC checks that
step-up, step-down and inverse Levinson are mutually inverse and commute; each state is
replayed into ac2poly, ac2rc, poly2ac, poly2rc, rc2poly, rc2ac.  LAR / inverse sine / LSF
are transcendental: exact special points from the spec table plus observation events
(ObsC11.tla) for orders 1..16.
"""
import math

import numpy as np

from .. import core, material as M, tlc, obs
from ..kern_util import call_guard, cmp_vec, cmp_scalar


def replay_state(chk, st, cplx):
    from spectrum import linear_prediction as lp
    if st['status'] != 'pd' or len(st['A']) == 0:
        chk.skip('linpred-not-pd-or-order0')
        return
    mode = 'complex' if cplx else 'real'
    if cplx:
        r = np.array(M.cq_seq(st['r']), dtype=complex)
        A = np.array(M.cq_seq(st['A']), dtype=complex)
        k = np.array(M.cq_seq(st['ref']), dtype=complex)
    else:
        r = np.array(M.real_list(st['r']), dtype=float)
        A = np.array([float(M.rat(v[0])) for v in st['A']])
        k = np.array([float(M.rat(v[0])) for v in st['ref']])
    P = float(M.rat(st['P']))
    r0 = float(M.rat(st['r'][0][0]))
    poly = np.concatenate(([1.0], A))
    case = {'r': r, 'poly': poly, 'P': P, 'rc': k, 'r0': r0, 'complex': cplx}

    def check(fn, args, expect, label):
        ok, res = call_guard(fn, *args)
        chk.evaluations += 1
        if not ok:
            chk.violation('C11:%s:%s:raises' % (label, mode), '%s raises %r on an admissible input' % (label, res), dict(case, call=label))
            return
        if not isinstance(expect, tuple):
            res, expect = (res,), (expect,)
        for i, (o, e) in enumerate(zip(res, expect)):
            if e is None:
                continue
            bad = cmp_scalar(o, e, name=label) if np.ndim(e) == 0 else cmp_vec(np.asarray(o).ravel(), e, name=label)
            if bad:
                chk.violation('C11:%s:%s:values' % (label, mode),
                              '%s%s does not invert / commute: %s' % (label, tuple(np.asarray(a).tolist() for a in args), bad),
                              dict(case, call=label, output=i))
                break

    check(lp.ac2poly, (r.copy(),), (poly, P), 'ac2poly')
    check(lp.ac2rc, (r.copy(),), (k, r0), 'ac2rc')
    check(lp.poly2ac, (poly.copy(), P), r.astype(complex), 'poly2ac')
    check(lp.poly2rc, (poly.copy(), P), k, 'poly2rc')
    check(lp.rc2poly, (k.copy(), r0), (poly, P), 'rc2poly')
    check(lp.rc2ac, (k.copy(), r0), r.astype(complex), 'rc2ac')
    # the same parameter sets written the way one types them: python sequences in which every number has the narrowest
    # python type that holds it (0 for an exactly zero coefficient, 0.5 for a real one next to complex ones, ...)
    def narrow(v):
        out = []
        for z in np.asarray(v).ravel():
            z = complex(z)
            if z.imag == 0 and z.real == int(z.real):
                out.append(int(z.real))
            elif z.imag == 0:
                out.append(float(z.real))
            else:
                out.append(z)
        return out
    cntn = getattr(chk, '_c11_narrow', 0)
    chk._c11_narrow = cntn + 1
    seq = (list, tuple)[cntn % 2]
    check(lp.rc2poly, (seq(narrow(k)), r0), (poly, P), 'rc2poly(sequence)')
    check(lp.rc2ac, (seq(narrow(k)), r0), r.astype(complex), 'rc2ac(sequence)')
    check(lp.poly2rc, (seq(narrow(poly)), P), k, 'poly2rc(sequence)')
    check(lp.ac2rc, (seq(narrow(r)),), (k, r0), 'ac2rc(sequence)')
    check(lp.ac2poly, (seq(narrow(r)),), (poly, P), 'ac2poly(sequence)')
    # a white process: every reflection coefficient is exactly zero (typed as it is written), any zero lag
    if cntn % 16 == 0:
        for order in (1, 2, 3):
            for z0 in (2.5, 0.3):
                for zeros in ([0] * order, np.zeros(order, dtype=int), [0.0] * order):
                    check(lp.rc2poly, (zeros, z0), (np.concatenate(([1.0], np.zeros(order))), z0), 'rc2poly(white)')
                    check(lp.rc2ac, (zeros, z0), np.concatenate(([z0], np.zeros(order))).astype(complex), 'rc2ac(white)')
    chk.replayed += 1
    chk.count('linpred-' + mode, 'replayed')
    if len(st['A']) == 3:
        chk.sample('linpred-' + mode, {'r': st['r'], 'A': st['A'], 'P': st['P'], 'ref': st['ref']}, 1)


def jobs(chk):
    quick = chk.tier == 'quick'
    inv = ['RcToPoly', 'RcToPolyError', 'PolyToRc', 'RcToAc', 'RoundTripRc', 'RoundTripPoly', 'ToeplitzEquation']
    js = []
    for cplx, order, r0set, parts in ((False, 4, [1, 2, 3], 'PartsQ' if quick else 'PartsT'),
                                      (True, 3, [2, 3], 'PartsC' if quick else 'PartsCT')):
        cfg = tlc._cfg_text(constants={'MaxOrder': order, 'R0Set': set(r0set), 'Parts': '<- ' + parts, 'Complex': cplx},
                            invariants=inv)
        js.append({'module': 'MC_LinPred', 'cfg': cfg, 'part': 'linpred-' + ('complex' if cplx else 'real'),
                   'replay': (lambda st, c=cplx: replay_state(chk, st, c))})
    return js


# ------------------------------------------------------------------ lar / is / lsf
def obs_events(chk):
    from spectrum import linear_prediction as lp
    rng = np.random.RandomState(1100 + chk.seed)
    batch = obs.Batch('ObsC11')
    # exact special points: the table lives in ObsC11.tla (values as rationals; lsf in units of pi)
    for num, den in ((0, 1), (1, 2), (-1, 2), (1, 1000)):
        kk = num / float(den)
        ok, v = call_guard(lp.rc2is, np.array([kk]))
        ok2, w = call_guard(lp.is2rc, np.array([1 / 3.0 if num == 1 and den == 2 else (-1 / 3.0 if num == -1 else 0.0)]))
        batch.add({'ev': 'is-special', 'k_num': num, 'k_den': den, 'raised': not (ok and ok2),
                   'is_q': obs.qs(float(v[0]), 1e-9) if ok else 0,
                   'back_q': obs.qs(float(w[0]), 1e-9) if ok2 else 0})
    ok, v = call_guard(lp.rc2lar, np.array([0.0]))
    batch.add({'ev': 'lar-special', 'raised': not ok, 'lar_q': obs.qs(float(v[0]), 1e-9) if ok else 0})
    for p in range(1, 9):
        a = np.zeros(p + 1)
        a[0] = 1
        ok, v = call_guard(lp.poly2lsf, a)
        batch.add({'ev': 'lsf-special', 'p': p, 'raised': not ok, 'n': len(v) if ok else 0,
                   'lsf_over_pi_q': [obs.qs(float(x) / math.pi, 1e-6) for x in v] if ok else []})
    reps = 4 if chk.tier == 'quick' else 40
    for order in range(1, 17):
        for rep in range(reps):
            k = rng.uniform(-0.98, 0.98, order)
            if rep % 4 == 1:
                k = k * rng.uniform(0, 1, order) ** 3
            ev = {'ev': 'lar-is', 'order': order}
            ok1, lar = call_guard(lp.rc2lar, k.copy())
            ok2, isv = call_guard(lp.rc2is, k.copy())
            ev['raised'] = not (ok1 and ok2)
            if not ev['raised']:
                ok3, k1 = call_guard(lp.lar2rc, np.array(lar))
                ok4, k2 = call_guard(lp.is2rc, np.array(isv))
                g = rng.uniform(-4, 4, order)
                s = rng.uniform(-0.99, 0.99, order)
                ok5, g2 = call_guard(lambda: lp.rc2lar(lp.lar2rc(g.copy())))
                ok6, s2 = call_guard(lambda: lp.rc2is(lp.is2rc(s.copy())))
                ev['raised'] = not (ok3 and ok4 and ok5 and ok6)
                if not ev['raised']:
                    ev['lar_rt'] = obs.q(np.max(np.abs(np.asarray(k1) - k)))
                    ev['is_rt'] = obs.q(np.max(np.abs(np.asarray(k2) - k)))
                    ev['lar_rt2'] = obs.q(np.max(np.abs(np.asarray(g2) - g) / (1 + np.abs(g))))
                    ev['is_rt2'] = obs.q(np.max(np.abs(np.asarray(s2) - s)))
                    # monotone: order preserved (bijection on the real line / interval)
                    ks = np.sort(k)
                    ev['lar_monotone'] = bool(np.all(np.diff(np.asarray(lp.rc2lar(ks))) >= 0))
                    ev['is_monotone'] = bool(np.all(np.diff(np.asarray(lp.rc2is(ks))) >= 0))
                    ev['is_in_range'] = bool(np.all(np.abs(isv) < 1))
                    ev['lens_ok'] = bool(len(lar) == order and len(isv) == order)
            if ev['raised']:
                ev.update(lar_rt=0, is_rt=0, lar_rt2=0, is_rt2=0, lar_monotone=False, is_monotone=False, is_in_range=False, lens_ok=False)
            batch.add(ev, {'k': k})
            # lsf: minimum-phase polynomial from reflection coefficients of moderate size
            kk = rng.uniform(-0.9, 0.9, order) * (0.95 ** np.arange(order))
            if rep % 4 == 2 and order <= 3:
                # strongly low-pass / high-pass models: every line spectral frequency below 1 rad (or above pi - 1)
                kk = np.array([[-0.97], [-0.97, 0.9], [-0.98, 0.95, -0.9]][order - 1]) * (1 if rep % 8 == 2 else [-1, 1, -1][:order])
            ok, res = call_guard(lp.rc2poly, kk.copy(), 1.0)
            ev = {'ev': 'lsf', 'order': order}
            if not ok:
                ev['raised'] = True
            else:
                a = np.asarray(res[0]).real
                ok1, lsf = call_guard(lp.poly2lsf, a.copy())
                ev['raised'] = not ok1
                if ok1:
                    lsf = np.asarray(lsf, dtype=float)
                    ok2, a2 = call_guard(lp.lsf2poly, lsf.copy())
                    ev['raised'] = not ok2
                    if ok2:
                        a2 = np.asarray(a2)
                        ev['n'] = int(len(lsf))
                        ev['increasing'] = bool(np.all(np.diff(lsf) > 0))
                        ev['inside'] = bool(len(lsf) > 0 and lsf[0] > 0 and lsf[-1] < math.pi)
                        ev['rt'] = obs.q(np.max(np.abs(a2.real - a)) / max(1.0, np.max(np.abs(a)))) if a2.shape == a.shape else obs.QCAP
                        ev['imag'] = obs.q(np.max(np.abs(a2.imag))) if np.iscomplexobj(a2) else 0
            if ev['raised']:
                ev.update(n=0, increasing=False, inside=False, rt=0, imag=0)
            batch.add(ev, {'k': kk})
    obs.validate(chk, batch, 'obs-lar-is-lsf', lambda ev, cl: 'C11:OBS:%s:%s' % (ev['ev'], cl),
                 lambda ev, cl: 'clause "%s" fails: %s' % (cl, ev))
    chk.sample('obs-event', batch.events[-1], 1)


def run(chk):
    core.run_jobs(chk, jobs(chk))
    obs_events(chk)
    from .. import session
    session.run_for(chk, 'C11')      # Session.tla: results do not depend on earlier calls


def replay_case(chk, sig, case):
    run(chk)
