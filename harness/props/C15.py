"""C15 - MA and ARMA estimators return valid, invertible models.

Arma.tla: ma() as two chained exact Yule-Walker fits and the AR part of arma_estimate
(P = Q) as the exact least-squares solution of the modified Yule-Walker equations over
unbiased lags; TLC checks Q coefficients / invertibility / positive variance; states are
replayed into ma, pma and arma_estimate.  Float data in the documented domains, both sides
of the P <= 4 solver switch, and the class PSD = (rho/sampling)|B|^2/|A|^2 clause for every
AR/MA/ARMA class: ObsC15.tla.
"""
import numpy as np

from .. import core, material as M, tlc, obs, zoo
from ..kern_util import fresh, call_guard, cmp_vec, cmp_scalar, entry_variants, np_int


def replay_state(chk, st, cplx):
    from spectrum import ma, pma, arma_estimate
    if st['phase'] != 'fitted':
        return
    mode = 'complex' if cplx else 'real'
    xa = np.array(M.cq_seq(st['x']), dtype=complex) if cplx else np.array(M.real_list(st['x']), dtype=float)
    N = len(xa)
    for f in st['fit']['ma']:
        if M.has_ovf(f['ma']) or M.has_ovf(f['rho']):
            chk.skip('ma-ovf')
            continue
        expB = np.array(M.cq_seq(f['ma']))
        expRho = float(M.rat(f['rho']))
        Q, Mo = f['Q'], f['M']
        case = {'x': xa, 'Q': Q, 'M': Mo, 'expect': {'ma': expB, 'rho': expRho}}
        counter = getattr(chk, '_c15_counter', 0)
        chk._c15_counter = counter + 1
        for ename, xin, tol in entry_variants(xa, cplx, counter, full=chk.tier != 'quick'):
            tol = 1e-7 if tol < 1e-6 else 1e-3
            ok, res = call_guard(ma, fresh(xin), Q, Mo)
            chk.evaluations += 1
            if not ok:
                chk.violation('C15:ma:%s:raises:%s' % (mode, ename), 'ma raises %r in its domain (%s input)' % (res, ename), case)
                continue
            b, rho = res
            bad = cmp_vec(b, expB, tol=tol, name='ma') or cmp_scalar(rho, expRho, tol=tol, name='rho')
            if bad:
                chk.violation('C15:ma:%s:values:%s' % (mode, ename), 'ma(x=%s as %s, Q=%d, M=%d) is not the chained Yule-Walker fit: %s' % (xa.tolist(), ename, Q, Mo, bad),
                              dict(case, entry=ename, observed={'ma': b, 'rho': rho}))
        ok, obj = call_guard(lambda: pma(xa.copy(), Q, Mo, NFFT=16))
        if ok:
            ok, _ = call_guard(lambda: obj.psd)
        if ok:
            bad = cmp_vec(obj.ma, expB, tol=1e-7, name='pma.ma') or cmp_scalar(obj.rho, expRho, tol=1e-7, name='pma.rho')
            if bad:
                chk.violation('C15:pma:%s:values' % mode, 'pma(x, %d, %d): %s' % (Q, Mo, bad), case)
        chk.count('arma-' + mode, 'ma-fits')
    for f in st['fit']['ar']:
        if not f['ok'] or M.has_ovf(f['ar']):
            chk.skip('arma-ar-singular-or-ovf')
            continue
        P, lag = f['P'], f['lag']
        Q = P
        if not (lag + 2 * P - Q <= N and 2 * Q < N - P):
            continue
        expA = np.array(M.cq_seq(f['ar']))
        if np.max(np.abs(expA)) > 1e3:
            chk.skip('arma-ar-ill-conditioned')
            continue
        case = {'x': xa, 'P': P, 'Q': Q, 'lag': lag, 'expect_ar': expA}
        ok, res = call_guard(arma_estimate, xa.astype(complex) if cplx else xa.copy(), P, Q, lag)
        chk.evaluations += 1
        if not ok:
            chk.count('arma-' + mode, 'arma-raises-on-tiny-data')     # the MA stage may be degenerate on 5-6 samples
            continue
        a = np.asarray(res[0])
        if len(a) != P:
            chk.violation('C15:arma_estimate:%s:ar-length' % mode,
                          'arma_estimate(P=%d, Q=%d, lag=%d) returns %d AR coefficients' % (P, Q, lag, len(a)), dict(case, observed=a))
        bad = cmp_vec(a[:P], expA, tol=1e-6, name='ar')
        if bad:
            chk.violation('C15:arma_estimate:%s:ar-values' % mode,
                          'arma_estimate AR part (x=%s, P=Q=%d, lag=%d) is not the modified Yule-Walker least-squares solution: %s'
                          % (xa.tolist(), P, lag, bad), dict(case, observed=a))
        chk.count('arma-' + mode, 'ar-fits')
    chk.replayed += 1
    chk.count('arma-' + mode, 'replayed')
    if N == 5:
        chk.sample('arma-' + mode, {'x': st['x'], 'fit': st['fit']}, 1)


def jobs(chk):
    quick = chk.tier == 'quick'
    js = []
    for cplx, n, parts in ((False, 5 if quick else 6, 'PartsS'), (True, 4 if quick else 5, 'Parts01' if quick else 'PartsS')):
        cfg = tlc._cfg_text(spec='ASpec', constants={'MaxN': n, 'MaxM': 0, 'MaxMaM': 3, 'MaxLag': 4, 'Parts': '<- ' + parts, 'Complex': cplx},
                            invariants=['MaIsValid', 'ArHasPCoefficients'])
        js.append({'module': 'MC_Arma', 'cfg': cfg, 'part': 'arma-' + ('complex' if cplx else 'real'),
                   'replay': (lambda st, c=cplx: replay_state(chk, st, c)), 'kw': {'workers': 8}})
    return js


def unbiased_acf(x, maxlag):
    n = len(x)
    return np.array([np.sum(x[k:] * np.conj(x[:n - k])) / (n - k) for k in range(maxlag + 1)])


def narrowband(rng, n, cplx):
    """the classical narrow-band AR(4) test process (two close spectral peaks, poles of radius 0.98) driven through a
    first-order MA: fitted with P = Q >= 6 its modified Yule-Walker system is full rank but ill conditioned"""
    poly = np.array([1, -2.7607, 3.8106, -2.6535, 0.9238])
    e = rng.randn(n + 200) + (1j * rng.randn(n + 200) if cplx else 0)
    e = e + 0.5 * np.concatenate(([0], e[:-1]))
    x = np.zeros(n + 200, dtype=complex if cplx else float)
    for i in range(4, n + 200):
        x[i] = e[i] - np.dot(poly[1:], x[i - 4:i][::-1])
    return x[200:]


def obs_events(chk):
    from spectrum import ma, arma_estimate
    rng = np.random.RandomState(1500 + chk.seed)
    batch = obs.Batch('ObsC15')
    reps = 25 if chk.tier == 'quick' else 250
    nb_reps = 40 if chk.tier == 'quick' else 200
    for rep in range(reps + nb_reps):
        N = int(rng.choice([16, 32, 64, 128, 256]))
        cplx = bool(rng.randint(2))
        narrow = rep >= reps
        if narrow:
            # narrow-band AR(4) process fitted with too high an order: ill-conditioned (but full rank) modified
            # Yule-Walker systems on the P > 4 side of the solver switch
            N = 256
            x = narrowband(rng, N, cplx)
        else:
            x = zoo.signal(rng, N, cplx, ['noise', 'arma'][rep % 2])
        # ma
        Mo = int(rng.randint(2, min(N - 1, 20) + 1))
        Q = int(rng.randint(1, Mo))
        ev = {'ev': 'ma', 'N': N, 'Q': Q, 'M': Mo, 'cplx': cplx}
        ok, res = call_guard(ma, x.copy(), np_int(Q, rep), np_int(Mo, rep + 1))
        ev['raised'] = not ok
        if ok:
            b, rho = res
            ev['len_ma'] = int(len(b))
            ev['maxzero_ppm'] = obs.q(np.max(np.abs(np.roots(np.concatenate(([1.0], b))))), 1e-6) if len(b) else 0
            ev['rho_ok'] = bool(np.isfinite(rho) and np.real(rho) > 0 and abs(np.imag(rho)) < 1e-9 * abs(rho))
        else:
            ev.update(len_ma=0, maxzero_ppm=0, rho_ok=False)
        batch.add(ev, {'N': N, 'Q': Q, 'M': Mo, 'seed': chk.seed, 'rep': rep})
        # arma: both sides of the P <= 4 solver switch
        P = int(rng.choice([1, 2, 3, 4, 5, 6, 8]))
        Qa = P if rep % 3 else int(rng.randint(1, P + 1))
        lag = int(rng.randint(max(Qa, 2 * P), max(Qa, 2 * P) + 10))
        if narrow:
            P = Qa = int(rng.choice([6, 8, 10]))
            lag = 2 * P + int(rng.choice([0, 1, 2]))
        if not (lag + 2 * P - Qa <= N and 2 * Qa < N - P):
            continue
        ev = {'ev': 'arma', 'N': N, 'P': P, 'Q': Qa, 'lag': lag, 'cplx': cplx}
        ok, res = call_guard(arma_estimate, x.astype(complex), np_int(P, rep), np_int(Qa, rep + 1), np_int(lag, rep + 2))
        ev['raised'] = not ok
        if ok:
            a, b, rho = res
            a = np.asarray(a)
            ev['len_ar'] = int(len(a))
            ev['len_ma'] = int(len(b))
            ev['maxzero_ppm'] = obs.q(np.max(np.abs(np.roots(np.concatenate(([1.0], b))))), 1e-6) if len(b) else 0
            ev['rho_ok'] = bool(np.isfinite(rho) and np.real(rho) > 0)
            if P == Qa and len(a) >= P:
                R = unbiased_acf(x.astype(complex), lag)
                Y = R[1:lag + 1]
                rows = range(P, lag)
                X = np.array([[Y[n - j] for j in range(1, P + 1)] for n in rows])
                y1 = np.array([Y[n] for n in rows])
                resid = y1 + X @ a[:P]
                ev['myw_dev'] = obs.q(np.max(np.abs(X.conj().T @ resid)) / max(float(np.real(np.vdot(y1, y1))), 1e-300))
                # least squares = no other coefficient vector has a smaller residual (insensitive to conditioning,
                # unlike a comparison of coefficients)
                ls = np.linalg.lstsq(-X, y1, rcond=None)[0]
                r_ls = y1 + X @ ls
                gap = float(np.real(np.vdot(resid, resid) - np.vdot(r_ls, r_ls))) / max(float(np.real(np.vdot(y1, y1))), 1e-300)
                ev['gap_dev'] = obs.q(max(gap, 0.0))
                # the least-squares solution is unique (full rank): the coefficients themselves, to the accuracy the
                # conditioning of the system allows (cond * 1e-12 relative; systems with cond > 1e9 are not compared)
                cond = float(np.linalg.cond(X))
                ev['cond_k'] = obs.q(cond, 1e3)
                ev['coef_dev'] = obs.q(np.linalg.norm(a[:P] - ls) / max(np.linalg.norm(ls), 1e-300))
            else:
                ev['myw_dev'] = 0
                ev['gap_dev'] = 0
                ev['cond_k'] = 0
                ev['coef_dev'] = 0
        else:
            ev.update(len_ar=0, len_ma=0, maxzero_ppm=0, rho_ok=False, myw_dev=0, gap_dev=0, cond_k=0, coef_dev=0)
            ev['exc'] = repr(res)[:100]
        batch.add(ev, {'N': N, 'P': P, 'Q': Qa, 'lag': lag, 'seed': chk.seed, 'rep': rep})
    # class clause
    for rep in range(3 if chk.tier == 'quick' else 20):
        for dt in ('real', 'complex'):
            N = int(rng.choice([32, 64, 128]))
            x = zoo.signal(rng, N, dt == 'complex', 'arma')
            nfft = [65, 64, 128][rep % 3] if rep < 3 else int(rng.choice([64, 65, 128]))
            sampling = [4.0, 0.5, 1.0][rep % 3] if rep < 3 else float(rng.choice([1.0, 4.0, 0.5]))
            # ARMA orders on both sides of P = Q (more MA than AR coefficients included)
            pq = [(3, 3), (2, 4), (4, 2)][rep % 3]
            for name in ('pburg', 'pyule', 'pcovar', 'pmodcovar', 'parma', 'pma'):
                ev = {'ev': 'class', 'cls': name, 'dt': dt, 'nfft': nfft}
                ok, obj = call_guard(zoo.build, name, x.copy(), nfft, sampling, False, P=pq[0], Q=pq[1])
                if ok:
                    ok, psd = call_guard(lambda: np.array(obj.psd))
                ev['raised'] = not ok
                if ok:
                    A = np.fft.fft(np.concatenate(([1.0], obj.ar)), nfft) if obj.ar is not None and name != 'pma' else np.ones(nfft)
                    B = np.fft.fft(np.concatenate(([1.0], obj.ma)), nfft) if obj.ma is not None and name in ('parma', 'pma') else np.ones(nfft)
                    shape = np.abs(B) ** 2 / np.abs(A) ** 2
                    if dt == 'real':
                        shape = 2 * shape[:len(psd)]
                    ev['positive'] = bool(np.isrealobj(psd) and np.all(np.isfinite(psd)) and np.all(psd > 0))
                    if len(shape) == len(psd):
                        ratio = psd / shape
                        ev['shape_dev'] = obs.q((np.max(ratio) - np.min(ratio)) / np.mean(ratio))
                        rho = getattr(obj, 'rho', None)
                        ev['rho_exposed'] = rho is not None
                        ev['const_dev'] = obs.q(abs(np.mean(ratio) - np.real(rho) / sampling) / (np.real(rho) / sampling)) if rho is not None else 0
                    else:
                        ev.update(shape_dev=obs.QCAP, rho_exposed=False, const_dev=0)
                else:
                    ev.update(positive=False, shape_dev=0, rho_exposed=False, const_dev=0)
                batch.add(ev, {'cls': name, 'dt': dt, 'N': N, 'nfft': nfft, 'sampling': sampling, 'seed': chk.seed})
    # the classes after attribute changes on a live object: the exposed model is the functional estimate for
    # the *current* attribute values (python and numpy integer arguments)
    import spectrum as sp
    for rep in range(4 if chk.tier == 'quick' else 30):
        dt = ('real', 'complex')[rep % 2]
        N = int(rng.choice([32, 64]))
        x = zoo.signal(rng, N, dt == 'complex', 'arma')
        for name in ('parma', 'pma'):
            ev = {'ev': 'live', 'cls': name, 'dt': dt}

            def run_live():
                devs = []
                if name == 'parma':
                    p = sp.parma(x.copy(), 3, 3, 12, NFFT=64)
                    p.psd
                    for lag, P, Q, wrap in ((14, 3, 3, np.int64), (14, 2, 2, int), (10, 2, 2, int), (12, 2, 2, np.int32)):
                        p.lag = wrap(lag)
                        p.ar_order = P
                        p.ma_order = Q
                        p.psd
                        a, b, rho = sp.arma_estimate(x.astype(complex) if dt == 'complex' else x.copy(), P, Q, lag)
                        devs += [zoo.rel_dev(p.ar, a), zoo.rel_dev(p.ma, b), abs(p.rho - rho) / abs(rho)]
                else:
                    p = sp.pma(x.copy(), 3, 10, NFFT=64)
                    p.psd
                    for Q, Mo in ((2, 10), (2, 8), (4, 9)):
                        p.ma_order = Q
                        p.ar_order = Mo
                        p.psd
                        b, rho = sp.ma(x.copy(), Q, Mo)
                        devs += [zoo.rel_dev(p.ma, b), abs(p.rho - rho) / abs(rho)]
                return max(devs)
            ok, d = call_guard(run_live)
            ev['raised'] = not ok
            ev['dev'] = obs.q(d) if ok else 0
            if not ok:
                ev['exc'] = repr(d)[:100]
            batch.add(ev, {'cls': name, 'dt': dt, 'seed': chk.seed, 'rep': rep})
    # "the coefficients the object exposes": they stay the object's own when several objects are alive together
    for cplx in (False, True):
        for r in zoo.coexistence(['pburg', 'pyule', 'pcovar', 'pmodcovar', 'parma', 'pma'], rng, cplx=cplx):
            batch.add({'ev': 'coexist', 'cls': r['cls'], 'raised': r['raised'], 'par_dev': obs.q(r['par_dev']), 'psd_dev': obs.q(r['psd_dev'])},
                      {'cls': r['cls'], 'cplx': cplx, 'seed': chk.seed})
    obs.validate(chk, batch, 'obs-models', lambda ev, cl: 'C15:OBS:%s:%s:%s' % (ev['ev'], ev.get('cls', 'P<=4' if ev.get('P', 0) <= 4 else 'P>4') if ev['ev'] != 'ma' else '', cl),
                 lambda ev, cl: 'clause "%s" fails: %s' % (cl, ev))
    chk.sample('obs-event', batch.events[1], 1)


def run(chk):
    core.run_jobs(chk, jobs(chk))
    obs_events(chk)
    from .. import session
    session.run_for(chk, 'C15')      # Session.tla: results do not depend on earlier calls
    from .. import units
    units.run_for(chk, 'C15')      # Units.tla: the unit the data are expressed in is not part of the data
    from .. import carrier
    carrier.run_for(chk, 'C15')      # Carrier.tla: a sample denotes its value whatever container carries it


def replay_case(chk, sig, case):
    run(chk)
