"""X04 (specification coverage beyond the listed properties) - transfer.py polynomials, eqtflength, pascal.

PolyRoots.tla builds prod (s - r_i) one root at a time in exact arithmetic; TLC checks that every root is
a zero and Vieta's relations.  Each state (roots, coefficients) is replayed into zpk2tf (k * Poly(z),
Poly(p)), tf2zpk and tf2zp (roots recovered as a multiset - compared through the polynomial they rebuild -
and the gain), eqtflength and pascal (definitions in the same module, checked by ASSUME).
"""
import numpy as np

from .. import core, material as M, tlc
from ..kern_util import call_guard, cmp_vec, cmp_scalar


def replay_state(chk, st, cplx, memo):
    from spectrum import transfer as T
    roots = np.array(M.cq_seq(st['roots']), dtype=complex)
    coef = np.array(M.cq_seq(st['coef']), dtype=complex)
    if len(roots) == 0:
        return
    if not cplx:
        roots, coef = roots.real.copy(), coef.real.copy()
    mode = 'complex' if cplx else 'real'
    # pair this state (zeros) with the previously seen state of the same degree (poles)
    key = len(roots)
    poles, pcoef = memo.get(key, (roots, coef))
    memo[key] = (roots, coef)
    gain = [2.0, -0.5, 3.0][len(roots) % 3]
    case = {'z': roots, 'p': poles, 'k': gain, 'b': gain * coef, 'a': pcoef}
    chk.evaluations += 1
    if not cplx:
        # (documented domain of the scipy wrappers: real roots or conjugate pairs - the complex universe goes to tf2zp only)
        ok, res = call_guard(T.zpk2tf, roots.copy(), poles.copy(), gain)
        bad = ('raises %r' % (res,)) if not ok else (cmp_vec(np.asarray(res[0], dtype=complex), gain * coef.astype(complex), name='b')
                                                     or cmp_vec(np.asarray(res[1], dtype=complex), pcoef.astype(complex), name='a'))
        if bad:
            chk.violation('X04:zpk2tf:%s' % mode, 'zpk2tf(z=%s, p=%s, k=%s): %s' % (roots.tolist(), poles.tolist(), gain, bad), case)
    for fname in (('tf2zpk', 'tf2zp') if not cplx else ('tf2zp',)):
        ok, res = call_guard(getattr(T, fname), gain * coef, pcoef.copy())
        if not ok:
            chk.violation('X04:%s:%s:raises' % (fname, mode), '%s raises %r' % (fname, res), case)
            continue
        z, p, k = res
        bad = None
        if len(z) != len(roots) or len(p) != len(poles):
            bad = 'number of zeros / poles'
        else:
            # multiset comparison through the polynomial the returned roots rebuild (well conditioned, unlike matching roots)
            bad = cmp_vec(np.poly(z).astype(complex), coef.astype(complex), tol=1e-6, name='poly(zeros)') or \
                cmp_vec(np.poly(p).astype(complex), pcoef.astype(complex), tol=1e-6, name='poly(poles)') or cmp_scalar(k, gain, tol=1e-9, name='gain')
        if bad:
            chk.violation('X04:%s:%s:values' % (fname, mode), '%s(b, a): %s' % (fname, bad), case)
    chk.replayed += 1
    chk.count('polyroots-' + mode, 'replayed')
    if len(roots) == 3:
        chk.sample('polyroots-' + mode, {'roots': st['roots'], 'coef': st['coef']}, 1)


def pascal_and_eqtflength(chk):
    from spectrum import pascal
    from spectrum.transfer import eqtflength
    from math import comb
    for n in range(1, 12):
        ok, res = call_guard(pascal, n)
        exp = np.array([[comb(i + j, i) for j in range(n)] for i in range(n)], dtype=float)
        chk.evaluations += 1
        if not ok or cmp_vec(res, exp, tol=0):
            chk.violation('X04:pascal', 'pascal(%d) is not the matrix of binomial(i+j, i)' % n, {'n': n})
    for la in range(0, 5):
        for lb in range(0, 5):
            for kind in ('list', 'array'):
                a = [10.0 + j for j in range(la)]
                b = [1.0 + j for j in range(lb)]
                m = max(la, lb)
                ea, eb = a + [0.0] * (m - la), b + [0.0] * (m - lb)
                args = (list(b), list(a)) if kind == 'list' else (np.array(b), np.array(a))
                ok, res = call_guard(eqtflength, *args)
                chk.evaluations += 1
                if not ok or list(np.asarray(res[0], dtype=float)) != eb or list(np.asarray(res[1], dtype=float)) != ea:
                    chk.violation('X04:eqtflength:%s' % kind, 'eqtflength(b=%s, a=%s) = %r, the model pads the shorter one with zeros on the right' % (b, a, res),
                                  {'a': a, 'b': b})
    chk.count('pascal-eqtflength', 'calls', 11 + 50)


def run(chk):
    quick = chk.tier == 'quick'
    inv = ['RootsAreZeros', 'Monic', 'VietaSum', 'VietaProduct']
    js = []
    for cplx, deg, parts in ((False, 4 if quick else 5, 'PartsQ' if quick else 'PartsT'), (True, 2 if quick else 3, 'PartsS')):
        memo = {}
        cfg = tlc._cfg_text(constants={'MaxDeg': deg, 'Parts': '<- ' + parts, 'Complex': cplx}, invariants=inv)
        js.append({'module': 'MC_PolyRoots', 'cfg': cfg, 'part': 'polyroots-' + ('complex' if cplx else 'real'),
                   'replay': (lambda st, c=cplx, mm=memo: replay_state(chk, st, c, mm))})
    core.run_jobs(chk, js)
    pascal_and_eqtflength(chk)


def replay_case(chk, sig, case):
    run(chk)
