"""C16 - the minimum-variance spectrum equals T / (e^H R^-1 e).

Minvar.tla (on top of Burg.tla): exact lag-domain coefficients of the quadratic form from
the exact inverse of the Toeplitz matrix implied by the order m-1 Burg model, checked by
TLC against Musicus' formula (the mechanism) and for positivity; every state is replayed
into minvar (PSD at even/odd NFFT and several sampling rates, returned AR vector and
reflection coefficients) and pminvar.  N up to 128, m up to 16: ObsC16.tla.
"""
import numpy as np

from .. import core, material as M, tlc, obs
from ..kern_util import fresh, call_guard, cmp_vec, live_object_dev, entry_variants
from .C13 import stage_minimiser_dev


def eval_form(quad, nfft):
    c = M.cq_seq(quad)
    k = np.arange(nfft)
    v = np.full(nfft, c[0], dtype=complex)
    for d in range(1, len(c)):
        z = np.exp(-2j * np.pi * k * d / nfft)
        v += c[d] * z + np.conj(c[d]) * np.conj(z)
    return v


def replay_state(chk, st, cplx):
    from spectrum import minvar, pminvar
    if st['phase'] != 'mv':
        return
    mv = st['mv']
    mode = 'complex' if cplx else 'real'
    if not mv['ok'] or M.has_ovf(mv['quad']) or M.has_ovf(st['a']):
        chk.skip('minvar-singular-or-ovf')
        return
    m = len(st['a']) + 1
    xa = np.array(M.cq_seq(st['x']), dtype=complex) if cplx else np.array(M.real_list(st['x']), dtype=float)
    expA = np.concatenate(([1.0], M.cq_seq(st['a'])))
    expK = np.array(M.cq_seq(st['ref']))
    for nfft in (2 * m, 2 * m + 1, 8, 12):
        form = eval_form(mv['quad'], nfft)
        if np.min(form.real) <= 1e-9 * np.max(np.abs(form)):
            chk.skip('minvar-form-near-zero')
            continue
        for sampling in (1.0, 2.0, 0.5):
            exp = sampling / form.real
            case = {'x': xa, 'order': m, 'NFFT': nfft, 'sampling': sampling, 'expect': exp}
            counter = getattr(chk, '_c16_counter', 0)
            chk._c16_counter = counter + 1
            for ename, xin, tol in entry_variants(xa, cplx, counter, full=chk.tier != 'quick'):
                tol = 1e-7 if tol < 1e-6 else 1e-3
                ok, res = call_guard(minvar, fresh(xin), m, sampling=sampling, NFFT=nfft)
                chk.evaluations += 1
                if not ok:
                    chk.violation('C16:minvar:%s:raises:%s' % (mode, ename), 'minvar raises %r (%s input)' % (res, ename), case)
                    continue
                psd, A, k = res
                bad = (cmp_vec(psd, exp, tol=tol, name='psd') or cmp_vec(A, expA, tol=tol, name='ar vector')
                       or cmp_vec(k, expK, tol=tol, name='reflection'))
                if bad:
                    what = 'psd' if 'psd' in bad else 'model'
                    chk.violation('C16:minvar:%s:%s:%s' % (mode, what, ename),
                                  'minvar(x=%s as %s, m=%d, sampling=%s, NFFT=%d) is not T/(e^H R^-1 e) of the Burg model: %s'
                                  % (xa.tolist(), ename, m, sampling, nfft, bad), dict(case, entry=ename, observed=psd))
                if not (np.isrealobj(psd) and np.all(psd > 0)):
                    chk.violation('C16:minvar:%s:not-positive' % mode, 'minvar PSD is not real and strictly positive', case)
        # the class: same values (doubled one-sided for real data)
        exp = 1.0 / form.real
        ok, obj = call_guard(lambda: pminvar(xa.copy(), m, NFFT=nfft, sampling=1.0, scale_by_freq=False))
        if ok:
            ok, v = call_guard(lambda: np.array(obj.psd))
        if not ok:
            chk.violation('C16:pminvar:%s:raises' % mode, 'pminvar raises', {'x': xa, 'order': m, 'NFFT': nfft})
        else:
            e2 = exp if cplx else 2 * exp[:(nfft // 2 + 1 if nfft % 2 == 0 else (nfft + 1) // 2)]
            bad = cmp_vec(v, e2, tol=1e-7, name='pminvar.psd')
            if bad:
                chk.violation('C16:pminvar:%s:psd' % mode, 'pminvar(x=%s, m=%d, NFFT=%d): %s' % (xa.tolist(), m, nfft, bad),
                              {'x': xa, 'order': m, 'NFFT': nfft, 'expect': e2})
    # the class on a second computation: after order / NFFT / sampling were re-assigned on the live object it
    # returns what a fresh object with those values returns
    if len(xa) >= 5:
        ok, dev = call_guard(live_object_dev, lambda **kw: pminvar(xa.copy(), **dict({'order': m, 'NFFT': 8}, **kw)),
                             [('ar_order', 2 if m != 2 else 3, 'order'), ('NFFT', 9, 'NFFT'), ('sampling', 2.0, 'sampling'),
                              ('ar_order', m, 'order')])
        if not ok or (dev is not None and dev > 1e-7):
            chk.violation('C16:pminvar:%s:live-object' % mode, 'pminvar after re-assigning ar_order / NFFT / sampling differs from a fresh object (%r)' % (dev,),
                          {'x': xa, 'order': m})
    chk.replayed += 1
    chk.count('minvar-' + mode, 'replayed')
    if m == 3:
        chk.sample('minvar-' + mode, {'x': st['x'], 'a': st['a'], 'quad': mv['quad']}, 1)


def jobs(chk):
    quick = chk.tier == 'quick'
    inv = ['MusicusIsQuadraticForm', 'TracePositive', 'PositiveOnGrid4']
    specs = [(False, 4, 5, 2, 'PartsS'), (True, 4, 4, 2, 'Parts01' if quick else 'PartsS')]
    if not quick:
        specs.append((False, 4, 6, 2, 'PartsQ'))
    js = []
    for cplx, minn, maxn, order, parts in specs:
        cfg = tlc._cfg_text(spec='MSpec', constants={'MinN': minn, 'MaxN': maxn, 'MaxOrder': order, 'Parts': '<- ' + parts, 'Complex': cplx},
                            invariants=inv)
        js.append({'module': 'MC_Minvar', 'cfg': cfg, 'part': 'minvar-' + ('complex' if cplx else 'real'),
                   'replay': (lambda st, c=cplx: replay_state(chk, st, c)), 'kw': {'workers': 8}})
    return js


def obs_events(chk):
    from spectrum import minvar, arburg
    from spectrum.linear_prediction import rc2ac
    rng = np.random.RandomState(1600 + chk.seed)
    batch = obs.Batch('ObsC16')
    reps = 30 if chk.tier == 'quick' else 300
    sizes = [8, 16, 33, 64, 127, 128]
    grid = [(N, c) for N in sizes for c in (False, True)]
    for rep in range(reps + len(grid)):
        if rep < len(grid):
            N, cplx = grid[rep]
        else:
            N = int(rng.choice(sizes))
            cplx = bool(rng.randint(2))
        m = int(rng.randint(2, min(N // 2, 16) + 1))
        t = np.arange(N)
        predictable = rep % 5 == 3 and N >= 16
        if predictable:
            # one tone 60 dB above the noise: reflection coefficients of modulus close to 1 (low orders only, see C13)
            m = min(m, 4)
            x = np.exp(1j * (0.9 * t + 0.3)) + 1e-3 * (rng.randn(N) + 1j * rng.randn(N)) if cplx else np.cos(0.9 * t + 0.3) + 1e-3 * rng.randn(N)
        else:
            x = rng.randn(N) + np.cos(0.8 * t)
            if cplx:
                x = x * np.exp(0.3j * t) + 1j * rng.randn(N)
        # the clauses are relative: the amplitude of the data is free (quantisation steps of an ADC, micro-volts, ...)
        x = x * (1.0, 1e-4, 1e5)[rep % 3]
        nfft = int(rng.choice([2 * m, 2 * m + 1, 64, 65]))
        nfft = max(nfft, 2 * m)
        T = float(rng.choice([1.0, 2.0, 0.25, 1000.0]))
        ev = {'ev': 'mv', 'N': N, 'm': m, 'cplx': cplx, 'nfft': nfft}
        ok, res = call_guard(minvar, x.copy(), m, sampling=T, NFFT=nfft)
        okb, rb = call_guard(arburg, x.copy(), m - 1)
        ev['raised'] = not (ok and okb)
        if not ev['raised']:
            psd, A, k = res
            ab, rhob, kb = rb
            # R from the reflection coefficients by the inverse Levinson recursion (harness copy of LevFn.AcOfRc)
            r0 = np.mean(np.abs(x) ** 2)
            r = ac_of_rc(kb, r0)
            R = np.array([[r[i - j] if i >= j else np.conj(r[j - i]) for j in range(m)] for i in range(m)])
            Ri = np.linalg.inv(R)
            f = np.arange(nfft) / float(nfft)
            E = np.exp(2j * np.pi * np.outer(np.arange(m), f))
            quad = np.real(np.einsum('ik,ij,jk->k', E.conj(), Ri, E))
            exp = T / quad
            ev['psd_dev'] = obs.q(np.max(np.abs(psd - exp) / exp)) if len(psd) == nfft else obs.QCAP
            ev['positive'] = bool(np.isrealobj(psd) and np.all(psd > 0))
            ev['ar_dev'] = obs.q(max(abs(A[0] - 1), np.max(np.abs(A[1:] - ab)) if m > 1 else 0))
            ev['k_dev'] = obs.q(np.max(np.abs(np.asarray(k) - kb)) if m > 1 else 0)
            # ... and they are Burg's by definition: each one minimises the forward+backward error of its stage
            ev['min_dev'] = obs.q(stage_minimiser_dev(x, np.asarray(k))) if (m <= 5 or not predictable) else 0
            ev['len_ok'] = bool(len(psd) == nfft and len(A) == m and len(k) == m - 1)
            ev['cond_ok'] = bool(np.linalg.cond(R) < 1e8)
        else:
            ev.update(psd_dev=0, positive=False, ar_dev=0, k_dev=0, min_dev=0, len_ok=False, cond_ok=True)
        batch.add(ev, {'N': N, 'm': m, 'cplx': cplx, 'nfft': nfft, 'T': T, 'seed': chk.seed, 'rep': rep})
    obs.validate(chk, batch, 'obs-large-N', lambda ev, cl: 'C16:OBS:%s:%s' % (cl, 'complex' if ev['cplx'] else 'real'),
                 lambda ev, cl: 'minvar N=%d m=%d NFFT=%d: clause "%s" fails: %s' % (ev['N'], ev['m'], ev['nfft'], cl, ev))
    chk.sample('obs-event', batch.events[0], 1)


def ac_of_rc(k, r0):
    """inverse Levinson: harness transcription of LevFn.tla!AcOfRc (float)"""
    r = [complex(r0)]
    a = np.zeros(0, dtype=complex)
    e = r0
    for m, km in enumerate(k, start=1):
        acc = sum(a[j - 1] * r[m - j] for j in range(1, m))
        r.append(-(km * e + acc))
        a = np.concatenate((a + km * np.conj(a[::-1]), [km]))
        e = e * (1 - abs(km) ** 2)
    return np.array(r)


def run(chk):
    core.run_jobs(chk, jobs(chk))
    obs_events(chk)
    from .. import session
    session.run_for(chk, 'C16')      # Session.tla: results do not depend on earlier calls
    from .. import units
    units.run_for(chk, 'C16')      # Units.tla: the unit the data are expressed in is not part of the data
    from .. import carrier
    carrier.run_for(chk, 'C16')      # Carrier.tla: a sample denotes its value whatever container carries it


def replay_case(chk, sig, case):
    run(chk)
