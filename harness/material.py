"""Exact spec values -> Python numbers.  The only numeric glue of the harness."""
from fractions import Fraction


class Overflow(Exception):
    pass


def rat(v):
    """<<n, d>> -> Fraction (OVF sentinel <<0,0>> raises Overflow)."""
    n, d = v
    if d == 0:
        raise Overflow()
    return Fraction(n, d)


def is_ovf_rat(v):
    return v[1] == 0


def cq(v):
    """<<re, im>> of rationals -> (Fraction, Fraction)"""
    return rat(v[0]), rat(v[1])


def cq_complex(v):
    re, im = cq(v)
    return complex(float(re), float(im))


def cq_seq(vs):
    return [cq_complex(v) for v in vs]


def rat_seq(vs):
    return [float(rat(v)) for v in vs]


def cq_is_real(v):
    return v[1][0] == 0 and v[1][1] != 0


def cq_seq_real(vs):
    """sequence of CQ with zero imaginary parts -> list of Fractions"""
    return [rat(v[0]) for v in vs]


def as_int_if_integral(fr):
    return int(fr) if fr.denominator == 1 else float(fr)


def real_list(vs):
    """CQ sequence (all real) -> python list of ints/floats (ints where exact)."""
    return [as_int_if_integral(rat(v[0])) for v in vs]


def has_ovf(v):
    """recursively look for the <<0,0>> sentinel in a nested tuple value"""
    if isinstance(v, tuple):
        if len(v) == 2 and v[0] == 0 and v[1] == 0:
            return True
        return any(has_ovf(x) for x in v)
    if isinstance(v, dict):
        return any(has_ovf(x) for x in v.values())
    return False
