"""Units.tla binding: replay every (token, exponent) state TLC enumerates - the record is multiplied by 2^e (exact), handed
to the real function, each output divided by 2^(degree * e) and compared with the output for e = 0."""
import os

import numpy as np

from . import core, tlc
from .session import _flatten

MAGNITUDES = (10, 20, 40, 60, 110, 240, 480)
MARGIN = 40


def _data():
    r = np.random.RandomState(1311)
    n = np.arange(40)
    X = np.cos(0.9 * n + 0.3) + 0.5 * r.randn(40)
    Z = np.exp(1j * (0.7 * n + 0.2)) + 0.4 * (r.randn(40) + 1j * r.randn(40))
    R = np.array([3.0, 1.2, 0.5, -0.2, 0.1])
    RC = np.array([3.0, 1.2 + 0.4j, 0.5 - 0.1j, -0.2 + 0.2j])
    # a positive definite Hermitian Toeplitz / full matrix of order 20 and a right-hand side
    col = 0.6 ** np.arange(20) * np.exp(0.3j * np.arange(20))
    import scipy.linalg
    A20 = scipy.linalg.toeplitz(col)
    B20 = r.randn(20) + 1j * r.randn(20)
    return dict(X=X, Z=Z, R=R, RC=RC, A20=A20, B20=B20)


def _ns():
    import warnings
    warnings.simplefilter('ignore')
    import spectrum as sp
    from spectrum import linear_prediction as lp
    from spectrum.eigenfre import eigen
    ns = {'sp': sp, 'np': np, 'lp': lp, 'eigen': eigen}
    return ns


def _eval(ex, ns, data, c):
    ns = dict(ns)
    ns.update(data)
    ns['c'] = c
    try:
        with np.errstate(all='ignore'):
            return _flatten(eval(ex, ns))
    except Exception as e:
        return e


def run_units(chk, prop, tokens, part='units'):
    """tokens: list of (expression over X, Z, R, RC, A20, B20 and the unit c, degree of each output, MaxDeg)"""
    os.makedirs(tlc.WORK, exist_ok=True)
    cfg = tlc._cfg_text(constants={'NTokens': len(tokens), 'Deg1': {i + 1 for i, t in enumerate(tokens) if t[2] == 1},
                                   'Deg4': {i + 1 for i, t in enumerate(tokens) if t[2] == 4},
                                   'Deg8': {i + 1 for i, t in enumerate(tokens) if t[2] == 8}, 'Magnitudes': set(MAGNITUDES), 'Margin': MARGIN},
                        invariants=['UnitFree'])
    res = chk.tlc('Units', cfg, part=part, workers=2)
    try:
        calls = [st['call'] for st in res.states() if st['phase'] == 'called']
    finally:
        tlc.cleanup(res.workdir)
    if chk.tier == 'quick':
        calls = [c for c in calls if c['extreme']]
    calls.sort(key=lambda c: (c['token'], c['prec'], c['exp']))
    ns = _ns()
    data = {'double': _data()}
    # the same records stored in single precision (float32 / complex64)
    data['single'] = {k: v.astype(np.complex64 if np.iscomplexobj(v) else np.float32) for k, v in data['double'].items()}
    refs = {}
    for c in calls:
        ex, degs, _ = tokens[c['token'] - 1]
        if (c['token'], c['prec']) not in refs:
            refs[(c['token'], c['prec'])] = _eval(ex, ns, data[c['prec']], 1.0)
        ref = refs[(c['token'], c['prec'])]
        if isinstance(ref, Exception) and c['prec'] == 'single':
            chk.skip('units: the token refuses single precision samples', 1)
            continue
        if isinstance(ref, Exception):
            raise core.MachineryError('units token `%s` raises on the unscaled record: %r' % (ex, ref))
        if len(degs) != len(ref):
            raise core.MachineryError('units token `%s` has %d outputs, %d degrees declared' % (ex, len(ref), len(degs)))
        e = c['exp']
        got = _eval(ex, ns, data[c['prec']], 2.0 ** e)
        chk.evaluations += 1
        fn = ex.split('(')[0]
        case = {'token': ex, 'exponent': e, 'precision': c['prec']}
        if isinstance(got, Exception):
            chk.violation('%s:units:%s:raises' % (prop, fn), '`%s` (%s precision samples) raises %r when the unit is c = 2^%d; with c = 1 it returns' % (ex, c['prec'], got, e), case)
            continue
        bad = None
        if len(got) != len(ref):
            bad = 'number of outputs'
        else:
            for i, (u, v, d) in enumerate(zip(got, ref, degs)):
                if u.shape != v.shape:
                    bad = 'shape of output %d' % i
                    break
                if not v.size:
                    continue
                with np.errstate(all='ignore'):
                    un = np.ldexp(u.real, -d * e) + 1j * np.ldexp(u.imag, -d * e)
                m = float(np.max(np.abs(v)))
                if not np.all(np.isfinite(un)) or float(np.max(np.abs(un - v))) > 1e-9 * m:
                    bad = 'output %d (degree %d)' % (i, d)
                    break
        if bad:
            chk.violation('%s:units:%s' % (prop, fn),
                          '`%s` (%s precision samples) with the unit c = 2^%d: %s is not c^degree times the result for c = 1' % (ex, c['prec'], e, bad), case)
    chk.replayed += len(calls)
    chk.count(part, 'calls', len(calls))
    chk.count(part, 'tokens', len(tokens))


TOKENS = {
    'C01': [("sp.speriodogram(c * X, NFFT=64, detrend=False, sampling=1., scale_by_freq=False, window='hamming')", (2,), 2),
            ("sp.speriodogram(c * Z, NFFT=64, detrend=True, sampling=1., scale_by_freq=False, window='hann')", (2,), 2),
            ("sp.CORRELOGRAMPSD(c * X, lag=12, window='rectangular', norm='biased', NFFT=64)", (2,), 2)],
    'C09': [("sp.CORRELATION(c * X, maxlags=8, norm='biased')", (2,), 2), ("sp.CORRELATION(c * Z, maxlags=8, norm='unbiased')", (2,), 2),
            ("sp.CORRELATION(c * Z, maxlags=8, norm=None)", (2,), 2), ("sp.CORRELATION(c * Z, maxlags=8, norm='coeff')", (0,), 2),
            ("sp.CORRELATION(c * X, c * X[::-1], maxlags=8, norm='biased')", (2,), 2),
            ("sp.xcorr(c * Z, maxlags=8, norm='biased')[0]", (2,), 2), ("sp.xcorr(c * Z, maxlags=8, norm='coeff')[0]", (0,), 2),
            ("sp.xcorr(c * X, c * X[::-1], maxlags=8, norm='coeff')[0]", (0,), 2), ("sp.xcorr(c * X, maxlags=8, norm='unbiased')[0]", (2,), 2),
            ("np.asarray(sp.corrmtx(c * Z, 3, 'modified'))", (1,), 1), ("np.asarray(sp.corrmtx(c * X, 3, 'autocorrelation'))", (1,), 1)],
    'C10': [("sp.LEVINSON(c * R)", (0, 1, 0), 1), ("sp.LEVINSON(c * RC)", (0, 1, 0), 1), ("sp.LEVINSON(c * RC, 2)", (0, 1, 0), 1),
            ("sp.LEVINSON(c * R, allow_singularity=True)", (0, 1, 0), 1),
            ("sp.HERMTOEP(c * RC[0].real, c * RC[1:], np.array([1., 2., 3., 4.]) + 0j)", (-1,), 1),
            ("sp.toeplitz.TOEPLITZ(c * RC[0], c * RC[1:3], np.conj(c * RC[1:3]), np.array([1., 2., 3.]) + 0j)", (-1,), 1),
            ("sp.CHOLESKY(c * A20, B20, 'numpy_solver')", (-1,), 1), ("sp.CHOLESKY(c * A20, B20, 'numpy')", (-1,), 1),
            ("sp.CHOLESKY(c * A20, B20, 'scipy')", (-1,), 1)],
    'C12': [("sp.aryule(c * X, 4, norm='biased')", (0, 2, 0), 2), ("sp.aryule(c * Z, 3, norm='unbiased')", (0, 2, 0), 2),
            ("sp.lpc(c * X, 4)", (0, 2), 2), ("sp.pyule(c * X, 4, NFFT=32).psd", (2,), 2)],
    'C13': [("sp.arburg(c * X, 4)", (0, 2, 0), 2), ("sp.arburg(c * Z, 6)", (0, 2, 0), 2), ("sp.arburg(c * X, 10, 'AIC')", (0, 2, 0), 2),
            ("sp.arburg(c * X, 10, 'MDL')", (0, 2, 0), 2), ("sp.pburg(c * Z, 4, NFFT=32).psd", (2,), 2)],
    'C14': [("sp.arcovar(c * Z, 4)", (0, 2), 2), ("sp.arcovar_marple(c * Z, 4)[:2]", (0, 2), 4), ("sp.modcovar(c * X, 4)", (0, 2), 2),
            ("sp.modcovar_marple(c * Z, 4)[:2]", (0, 2), 2), ("sp.pcovar(c * X, 3, NFFT=32).psd", (2,), 2), ("sp.pmodcovar(c * Z, 3, NFFT=32).psd", (2,), 2)],
    'C15': [("sp.arma_estimate(c * X, 3, 3, 12)", (0, 0, 2), 8), ("sp.arma_estimate(c * Z, 2, 2, 10)", (0, 0, 2), 8),
            ("sp.ma(c * X, 3, 12)", (0, 2), 2), ("sp.pma(c * X, 3, 12, NFFT=32).psd", (2,), 2), ("sp.parma(c * Z, 2, 2, 10, NFFT=32).psd", (2,), 8)],
    'C16': [("sp.minvar(c * X, 4, NFFT=32)[0]", (2,), 2), ("sp.minvar(c * Z, 5, NFFT=33)[0]", (2,), 2), ("sp.pminvar(c * Z, 4, NFFT=32).psd", (2,), 2)],
    'C17': [("eigen(c * Z, 8, NSIG=2, method='music', NFFT=32)", (0, 1), 2), ("eigen(c * Z, 8, NSIG=2, method='ev', NFFT=32)", (1, 1), 2),
            ("eigen(c * X, 8, NSIG=2, method='music', NFFT=32)", (0, 1), 2)],
    'C19': [("sp.pmtm(c * X, NW=2.5, k=4, NFFT=64, method='adapt')", (1, 0, 0), 2), ("sp.pmtm(c * Z, NW=2.5, k=4, NFFT=64, method='adapt')", (1, 0, 0), 2),
            ("sp.pmtm(c * Z, NW=2.5, k=4, NFFT=64, method='eigen')", (1, 0, 0), 2),
            ("sp.MultiTapering(c * X, NW=2.5, k=4, NFFT=64, method='adapt').psd", (2,), 2),
            ("sp.MultiTapering(c * Z, NW=2.5, k=4, NFFT=64, method='unity').psd", (2,), 2)],
}


def run_for(chk, prop):
    run_units(chk, prop, TOKENS[prop])
