"""Check context: verdict bookkeeping, known findings, replay files, evidence."""
import hashlib
import json
import os
import sys
import time

from . import tlc as tlcmod

VERIF = os.path.dirname(os.path.dirname(os.path.abspath(__file__)))
EVIDENCE = os.path.join(VERIF, 'evidence')
REPLAY = os.path.join(VERIF, 'replay')
FINDINGS = os.path.join(VERIF, 'known_findings.json')


class MachineryError(Exception):
    pass


def load_findings():
    if not os.path.exists(FINDINGS):
        return []
    with open(FINDINGS) as f:
        return json.load(f)['findings']


def _jsonable(v):
    import fractions
    try:
        import numpy as np
    except ImportError:  # pragma: no cover
        np = None
    if isinstance(v, dict):
        return {str(k): _jsonable(x) for k, x in v.items()}
    if isinstance(v, (list, tuple, set, frozenset)):
        return [_jsonable(x) for x in v]
    if isinstance(v, fractions.Fraction):
        return '%d/%d' % (v.numerator, v.denominator)
    if isinstance(v, complex):
        return {'re': v.real, 'im': v.imag}
    if np is not None:
        if isinstance(v, np.ndarray):
            return _jsonable(v.tolist())
        if isinstance(v, np.generic):
            return _jsonable(v.item())
    if isinstance(v, float):
        if v != v or v in (float('inf'), float('-inf')):
            return repr(v)
        return v
    if isinstance(v, (int, str, bool)) or v is None:
        return v
    return repr(v)


class Check(object):
    def __init__(self, prop, tier, seed):
        self.prop = prop
        self.tier = tier
        self.seed = seed
        self.t0 = time.time()
        self.states = 0
        self.transitions = 0
        self.replayed = 0        # spec states / behaviours replayed into the code
        self.traces = 0          # code traces validated against the spec
        self.events = 0          # observation events validated against the spec
        self.evaluations = 0
        self.samples = []
        self.parts = {}          # per sub-check counters
        self.violations = []     # (sig, detail, replay path)
        self.known_hit = {}      # sig -> count
        self.skipped = {}        # reason -> count
        self.tlc_runs = []
        self.assumptions = []
        self.notes = []
        self.findings = [f for f in load_findings() if f['property'] == prop]
        self._open = {f['signature']: f for f in self.findings if f.get('status', 'open') == 'open'}
        self._sample_budget = {}
        self.replay_only = None
        self._cleaned = False

    # ------------------------------------------------------------------ TLC
    def tlc(self, module, cfg, part=None, **kw):
        kw.setdefault('tag', '%s-%s' % (self.prop, module))
        res = tlcmod.run(module, cfg, **kw)
        self.states += res.distinct
        self.transitions += res.generated
        self.tlc_runs.append({'module': module, 'distinct': res.distinct, 'generated': res.generated,
                              'depth': res.depth, 'wall_s': round(res.wall, 2),
                              'mode': 'simulate' if kw.get('simulate') else 'exhaustive'})
        if part:
            p = self.part(part)
            p['spec_states'] = p.get('spec_states', 0) + res.distinct
        return res

    def part(self, name):
        return self.parts.setdefault(name, {})

    def count(self, part, key, n=1):
        p = self.part(part)
        p[key] = p.get(key, 0) + n

    def skip(self, reason, n=1):
        self.skipped[reason] = self.skipped.get(reason, 0) + n

    def sample(self, kind, obj, limit=3):
        n = self._sample_budget.get(kind, 0)
        if n < limit:
            self._sample_budget[kind] = n + 1
            self.samples.append({'kind': kind, 'case': _jsonable(obj)})

    # ------------------------------------------------------------ verdicts
    def violation(self, sig, what, case):
        """A property violation observed on the real code.

        sig  : specific signature (function / clause / shape) used for known findings
        what : one-line human description
        case : JSON-able dict sufficient to re-run exactly this case (--replay)
        """
        if not self._cleaned and self.replay_only is None and not os.environ.get('VERIF_NO_EVIDENCE'):
            # replay files of earlier runs of this property are obsolete
            import glob
            for old in glob.glob(os.path.join(REPLAY, '%s-*.json' % self.prop)):
                os.remove(old)
            self._cleaned = True
        if sig in self._open:
            c = self.known_hit.get(sig, 0)
            self.known_hit[sig] = c + 1
            if c == 0:
                self._open[sig].setdefault('_example', _jsonable(case))
            return False
        h = hashlib.sha1(json.dumps([sig, _jsonable(case)], sort_keys=True).encode()).hexdigest()[:12]
        path = os.path.join(REPLAY, '%s-%s.json' % (self.prop, h))
        seen = [v for v in self.violations if v[0] == sig]
        if os.environ.get('VERIF_NO_EVIDENCE'):
            path = os.path.join('/tmp', os.path.basename(path))
        if len(seen) < 3 and self.replay_only is None:
            os.makedirs(REPLAY, exist_ok=True)
            with open(path, 'w') as f:
                json.dump({'property': self.prop, 'signature': sig, 'what': what,
                           'case': _jsonable(case)}, f, indent=1, sort_keys=True)
        elif seen:
            path = seen[0][2]
        self.violations.append((sig, what, path))
        return True

    # ------------------------------------------------------------- wrap up
    def finish(self):
        wall = time.time() - self.t0
        for sig, f in self._open.items():
            if self.known_hit.get(sig):
                print('KNOWN-FINDING: property=%s %s [%s; seen %d times in this run]'
                      % (self.prop, f['what'], sig, self.known_hit[sig]))
        shown = set()
        for sig, what, path in self.violations:
            if sig in shown:
                continue
            shown.add(sig)
            print('VIOLATION property=%s replay=%s' % (self.prop, path))
            print('  signature: %s' % sig)
            print('  what: %s' % what)
        n_unlisted = len(self.violations)
        if self.replay_only is None and not os.environ.get('VERIF_NO_EVIDENCE'):
            self.write_evidence(wall, n_unlisted)
        print('%s %s: states=%d transitions=%d replayed=%d traces=%d events=%d violations=%d known=%d wall=%.1fs'
              % (self.prop, self.tier, self.states, self.transitions, self.replayed, self.traces,
                 self.events, n_unlisted, sum(self.known_hit.values()), wall))
        return 1 if n_unlisted else 0

    def write_evidence(self, wall, n_viol):
        os.makedirs(EVIDENCE, exist_ok=True)
        if not self.samples:
            self.samples.append({'kind': 'none', 'case': 'no sample recorded'})
        cov = {
            'states': self.states,
            'transitions': self.transitions,
            'traces_validated_against_impl': self.replayed + self.traces + self.events,
            'samples': self.samples[:24],
            'spec_states_replayed_into_code': self.replayed,
            'code_traces_validated_by_tlc': self.traces,
            'observation_events_validated_by_tlc': self.events,
            'evaluations': max(self.evaluations, self.replayed + self.traces + self.events),
            'parts': self.parts,
            'skipped': self.skipped,
            'tlc_runs': self.tlc_runs,
            'known_findings_seen': {k: v for k, v in self.known_hit.items()},
            'rule': getattr(self, 'rule', 'see DESIGN.md section 3 entry of this property; counts are measured in this run'),
        }
        if getattr(self, 'distinct_nontrivial', None) is not None:
            cov['distinct_nontrivial'] = int(self.distinct_nontrivial)
        ev = {
            'property_id': self.prop,
            'tier': self.tier,
            'seed': self.seed,
            'level': getattr(self, 'level', 'model_checking'),
            'coverage': cov,
            'assumptions': self.assumptions + self.notes,
            'wall_s': round(wall, 2),
            'violations': n_viol,
        }
        # X.. ids are specification coverage beyond the listed properties: their evidence is kept apart
        evdir = EVIDENCE if not self.prop.startswith('X') else os.path.join(VERIF, 'evidence_ext')
        os.makedirs(evdir, exist_ok=True)
        tmp = os.path.join(evdir, '%s.json.tmp' % self.prop)
        with open(tmp, 'w') as f:
            json.dump(ev, f, indent=1, sort_keys=True)
        os.replace(tmp, os.path.join(evdir, '%s.json' % self.prop))


def close(a, b, tol=1e-8, scale=None):
    """|a-b| <= tol*max(1, scale) for scalars (complex ok)."""
    s = max(1.0, abs(b) if scale is None else scale)
    return abs(a - b) <= tol * s


def vec_close(obs, exp, tol=1e-8):
    import numpy as np
    obs = np.asarray(obs)
    exp = np.asarray(exp)
    if obs.shape != exp.shape:
        return False
    if obs.size == 0:
        return True
    if not np.all(np.isfinite(obs)):
        return False
    s = max(1.0, float(np.max(np.abs(exp))))
    return bool(np.max(np.abs(obs - exp)) <= tol * s)


def run_jobs(chk, jobs, parallel=5, workers=4):
    """Run several TLC jobs concurrently, then replay their states sequentially.

    job: dict(module=, cfg=, part=, replay=callable(state) [, kw=dict of tlc.run args,
              after=callable(result)])
    """
    from concurrent.futures import ThreadPoolExecutor
    import threading
    lock = threading.Lock()
    only = getattr(chk, 'only_parts', None)
    jobs = [j for j in jobs if not only or j['part'] in only]

    def launch(job):
        kw = dict(job.get('kw', {}))
        kw.setdefault('workers', workers)
        kw.setdefault('tag', '%s-%s' % (chk.prop, job['module']))
        return tlcmod.run(job['module'], job['cfg'], **kw)

    results = []
    try:
        with ThreadPoolExecutor(max_workers=parallel) as ex:
            futs = [ex.submit(launch, j) for j in jobs]
            err = None
            for j, f in zip(jobs, futs):
                try:
                    results.append((j, f.result()))
                except Exception as e:  # keep collecting so that work dirs get cleaned
                    err = err or e
            if err:
                raise err
        for job, res in results:
            chk.states += res.distinct
            chk.transitions += res.generated
            chk.tlc_runs.append({'module': job['module'], 'part': job['part'], 'distinct': res.distinct,
                                 'generated': res.generated, 'depth': res.depth, 'wall_s': round(res.wall, 2),
                                 'mode': 'simulate' if job.get('kw', {}).get('simulate') else 'exhaustive'})
            p = chk.part(job['part'])
            p['spec_states'] = p.get('spec_states', 0) + res.distinct
            if job.get('replay'):
                before = chk.replayed + chk.evaluations
                nstates = 0
                for st in res.states():
                    nstates += 1
                    job['replay'](st)
                # vacuity gate: a model that explored nothing, or a replay that exercised no call of the
                # real code, is a machinery failure - never a silent pass
                if nstates == 0 or chk.replayed + chk.evaluations == before:
                    raise MachineryError('vacuous run: job %s (%s) explored %d states and replayed nothing'
                                         % (job['part'], job['module'], nstates))
            if job.get('after'):
                job['after'](res)
    finally:
        for _j, res in results:
            tlcmod.cleanup(res.workdir)
