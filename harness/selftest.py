"""Negative controls of the binding (not a registered check): each corruption must flip the verdict.

  1. a recorded object trace with one corrupted attribute / axis field / read token
     must be rejected by SpectrumTrace.tla at exactly that event;
  2. an observation event with one corrupted field must be rejected by its Obs module;
  3. a spec state with one flipped expected sign must be reported by the replay adapter.
Exit 0 when every control behaves, 2 otherwise.
"""
import copy
import random
import sys

import numpy as np

from . import core, obs, tlc
from . import drive_obj as D
from .props import C07, C10


def control_trace():
    chk = core.Check('SELFTEST', 'quick', 0)
    cls = D.CLASSES['pburg']
    rec = C07.Recorder()
    refs = D.RefCache(cls)
    C07.random_walks(chk, cls, 'real', rec, refs, random.Random(3), nwalks=3, length=10)
    base = copy.deepcopy(rec.events)
    C07.validate(chk, rec, 'clean')
    if chk.violations:
        return 'clean trace rejected: %r' % (chk.violations[:2],)
    results = []
    for field, mut in (('post.nfft', lambda e: e['post'].__setitem__('nfft', e['post']['nfft'] + 1)),
                       ('axis.samp', lambda e: e['axis'].__setitem__('samp', e['axis']['samp'] * 2)),
                       ('ret.fresh', lambda e: e['ret'].__setitem__('fresh', False))):
        chk2 = core.Check('SELFTEST', 'quick', 0)
        rec2 = C07.Recorder()
        rec2.events = copy.deepcopy(base)
        rec2.meta = list(rec.meta)
        idx = [i for i, e in enumerate(rec2.events) if e['op'] == 'ReadPsd' and e['ret'].get('valid')][2]
        mut(rec2.events[idx])
        C07.validate(chk2, rec2, 'corrupted')
        hit = [v for v in chk2.violations]
        results.append((field, len(hit)))
        if not hit:
            return 'corrupted field %s accepted' % field
    return None


def control_obs():
    chk = core.Check('SELFTEST', 'quick', 0)
    batch = obs.Batch('ObsC10')
    good = {'ev': 'solver', 'which': 'HERMTOEP', 'n': 5, 'raised': False, 'len_x': 5, 'resid': 3}
    bad = dict(good, resid=500000)
    batch.add(good)
    batch.add(bad)
    batch.add(dict(good, len_x=4))
    n = obs.validate(chk, batch, 'selftest', lambda ev, cl: 'SELF:%s' % cl)
    sigs = sorted(v[0] for v in chk.violations)
    if n != 2 or sigs != ['SELF:length', 'SELF:solves']:
        return 'observation control: %d failing events, %r' % (n, sigs)
    return None


def control_replay():
    chk = core.Check('SELFTEST', 'quick', 0)
    st = C10.C10_single_state(chk, (((3, 1), (0, 1)), ((1, 1), (0, 1)), ((-1, 1), (0, 1))), False)
    C10.replay_levinson(chk, st, False)
    if chk.violations:
        return 'clean state rejected'
    bad = dict(st)
    a = list(st['A'])
    a[0] = ((-a[0][0][0], a[0][0][1]), a[0][1])
    bad['A'] = tuple(a)
    C10.replay_levinson(chk, bad, False)
    if not chk.violations:
        return 'flipped expected sign not detected'
    return None


def control_envelopes():
    """Carrier / Units / Quiet / Session: a token that depends on the circumstance must be reported, a clean one must not."""
    from . import carrier, units, quiet, session
    out = []
    for name, run, clean, dirty in (
            ('carrier', carrier.run_carrier, ["np.sum(np.asarray(X, dtype=float) ** 2)"], ["np.sum(np.asarray(X) * np.asarray(X))"]),
            ('units', units.run_units, [("np.sum((c * X) ** 2)", (2,), 2)], [("np.sum((c * X) ** 2) + 1e-40", (2,), 2)]),
            ('quiet', quiet.run_quiet, [("np.arange(3.)", "np.arange(3.) + 0")], [("np.arange(3.)", "np.arange(3.) * 2")]),
            ('session', session.run_session, ["np.arange(4.)", "X1[:3] * 2"], ["np.arange(4.)", "X1.__imul__(2)[:3]"])):
        c1 = core.Check('SELFTEST', 'quick', 0)
        run(c1, 'SELF', clean)
        c2 = core.Check('SELFTEST', 'quick', 0)
        run(c2, 'SELF', dirty)
        if c1.violations:
            return '%s: clean token reported: %r' % (name, c1.violations[0][0])
        if not c2.violations:
            return '%s: circumstance-dependent token accepted' % name
        out.append(name)
    return None


def control_carrier_mechanism():
    """Carrier.tla with the wrap-around mechanism (Promote = FALSE): TLC must refute MechanismIsExact."""
    cfg = tlc._cfg_text(constants={'NTokens': 1, 'Levels': set(__import__('harness.carrier', fromlist=['LEVELS']).LEVELS), 'Promote': False}, invariants=['MechanismIsExact'])
    try:
        res = tlc.run('Carrier', cfg, tag='selftest-carrier', workers=1, dump=False)
        tlc.cleanup(res.workdir)
    except tlc.TlcError as e:
        return None if 'MechanismIsExact' in str(e) and 'violated' in str(e) else 'TLC failed for another reason: %s' % str(e)[-300:]
    return 'TLC accepts the wrap-around mechanism'


def main():
    import os
    os.environ['VERIF_NO_EVIDENCE'] = '1'
    failed = 0
    for name, f in (('trace validation', control_trace), ('observation events', control_obs), ('state replay', control_replay), ('envelope replays', control_envelopes), ('wrap-around mechanism', control_carrier_mechanism)):
        msg = f()
        print('%-20s %s' % (name, 'ok: corruptions rejected' if msg is None else 'BROKEN: ' + msg))
        failed += msg is not None
    return 2 if failed else 0


if __name__ == '__main__':
    sys.exit(main())
