"""Quiet.tla binding: replay every (token, mode) state TLC enumerates - the call is made with its diagnostics flag and / or
with the root logger at DEBUG level - and compare the result with the quiet call."""
import logging
import os

import numpy as np

from . import core, tlc
from .session import _flatten, same, PREAMBLE


def _eval(ex, ns, debug):
    root = logging.getLogger()
    old = root.level
    handler = logging.NullHandler()
    saved = root.handlers[:]
    if debug:
        root.handlers[:] = [handler]          # (the records go nowhere: only the level matters)
        root.setLevel(logging.DEBUG)
    try:
        import io
        import contextlib
        with contextlib.redirect_stdout(io.StringIO()):
            v = eval(ex, ns)
        return _flatten(v)
    except Exception as e:
        return e
    finally:
        if debug:
            root.setLevel(old)
            root.handlers[:] = saved
        try:
            import matplotlib.pyplot as plt
            plt.close('all')
        except Exception:
            pass


def run_quiet(chk, prop, tokens, part='quiet'):
    """tokens: list of (quiet expression, the same call with its diagnostics flag or None) over the names of session.PREAMBLE"""
    os.makedirs(tlc.WORK, exist_ok=True)
    cfg = tlc._cfg_text(constants={'NTokens': len(tokens), 'Flagged': {i + 1 for i, t in enumerate(tokens) if t[1]}}, invariants=['ModeFree'])
    res = chk.tlc('Quiet', cfg, part=part, workers=2)
    try:
        calls = [st['call'] for st in res.states() if st['phase'] == 'called']
    finally:
        tlc.cleanup(res.workdir)
    calls.sort(key=lambda c: (c['token'], c['mode']))
    ns = {}
    exec(PREAMBLE, ns)
    refs = {}
    for c in calls:
        quiet_ex, flag_ex = tokens[c['token'] - 1]
        if c['token'] not in refs:
            refs[c['token']] = _eval(quiet_ex, ns, False)
        ref = refs[c['token']]
        if isinstance(ref, Exception):
            raise core.MachineryError('quiet token `%s` raises: %r' % (quiet_ex, ref))
        if c['mode'] == 'quiet':
            continue
        ex = flag_ex if 'flag' in c['mode'] else quiet_ex
        got = _eval(ex, ns, 'debug' in c['mode'])
        chk.evaluations += 1
        fn = quiet_ex.split('(')[0]
        case = {'token': quiet_ex, 'mode': c['mode'], 'call': ex}
        if isinstance(got, Exception):
            chk.violation('%s:quiet:%s:%s:raises' % (prop, fn, c['mode']), '`%s` raises %r in mode %s' % (ex, got, c['mode']), case)
        elif not same(got, ref):
            chk.violation('%s:quiet:%s:%s' % (prop, fn, c['mode']),
                          '`%s` (mode %s) does not return what `%s` returns' % (ex, c['mode'], quiet_ex), case)
    # the quiet result again, after all the loud calls
    for t, ref in refs.items():
        got = _eval(tokens[t - 1][0], ns, False)
        if isinstance(got, Exception) or not same(got, ref):
            chk.violation('%s:quiet:%s:after-diagnostics' % (prop, tokens[t - 1][0].split('(')[0]),
                          '`%s` no longer returns its first result after the calls with diagnostics' % tokens[t - 1][0], {'token': tokens[t - 1][0]})
    chk.replayed += len(calls)
    chk.count(part, 'calls', len(calls))
    chk.count(part, 'tokens', len(tokens))


TOKENS = {
    'C02': [("sp.pburg(Z1, 6, criteria='AIC', NFFT=32).psd", None), ("sp.pburg(X1, 8, criteria='MDL', NFFT=32).psd", None),
            ("sp.pmusic(Z1, 6, NSIG=2, NFFT=32).psd", "sp.pmusic(Z1, 6, NSIG=2, NFFT=32, verbose=True).psd"),
            ("sp.pev(Z1, 6, threshold=3.0, NFFT=32).psd", "sp.pev(Z1, 6, threshold=3.0, NFFT=32, verbose=True).psd"),
            ("sp.Periodogram(X1, NFFT=32).psd", None), ("sp.pyule(X1, 3, NFFT=32).psd", None)],
    'C13': [("sp.arburg(X1, 8, 'AIC')", None), ("sp.arburg(Z1, 8, 'MDL')", None), ("sp.arburg(X2, 8, 'FPE')", None), ("sp.arburg(X1, 4)", None),
            ("sp.arburg(np.exp(0.9j * np.arange(24)) + 1e-3 * Z1, 6, 'AIC')", None), ("sp.arburg(np.cos(0.9 * np.arange(24)) + 1e-3 * X2, 8, 'AKICc')", None)],
    'C17': [("eigen(Z1, 6, NSIG=2, method='music', NFFT=16)", "eigen(Z1, 6, NSIG=2, method='music', NFFT=16, verbose=True)"),
            ("eigen(Z2, 6, NSIG=2, method='ev', NFFT=16)", "eigen(Z2, 6, NSIG=2, method='ev', NFFT=16, verbose=True)"),
            ("eigen(Z1, 6, method='ev', threshold=3.0, NFFT=16)", "eigen(Z1, 6, method='ev', threshold=3.0, NFFT=16, verbose=True)"),
            ("eigen(X1, 8, method='music', criteria='mdl', NFFT=16)", "eigen(X1, 8, method='music', criteria='mdl', NFFT=16, verbose=True)"),
            ("(lambda p: (p.psd, p.eigenvalues)[1])(sp.pev(Z1, 6, NSIG=2, NFFT=16))", "(lambda p: (p.psd, p.eigenvalues)[1])(sp.pev(Z1, 6, NSIG=2, NFFT=16, verbose=True))")],
    'C19': [("sp.pmtm(X1, NW=2.5, k=4, NFFT=32, method='adapt')", "sp.pmtm(X1, NW=2.5, k=4, NFFT=32, method='adapt', show=True)"),
            ("sp.pmtm(Z1, NW=2.5, k=4, NFFT=32, method='eigen')", "sp.pmtm(Z1, NW=2.5, k=4, NFFT=32, method='eigen', show=True)"),
            ("sp.pmtm(Z1, NW=2.5, k=3, NFFT=32, method='unity')", "sp.pmtm(Z1, NW=2.5, k=3, NFFT=32, method='unity', show=True)"),
            ("sp.MultiTapering(X1, NW=2.5, k=4, NFFT=32, method='adapt').psd", None)],
}


def run_for(chk, prop):
    run_quiet(chk, prop, TOKENS[prop])
