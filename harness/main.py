"""bin/check entry point."""
import argparse
import importlib
import json
import os
import sys
import traceback

from . import core, tlc


def main(argv=None):
    ap = argparse.ArgumentParser()
    ap.add_argument('prop')
    ap.add_argument('--tier', default=os.environ.get('VERIF_TIER', 'quick'), choices=['quick', 'thorough'])
    ap.add_argument('--replay', default=None)
    ap.add_argument('--part', default=None, help='run only the named sub-check(s), comma separated (development aid)')
    a = ap.parse_args(argv)
    try:
        seed = int(os.environ.get('VERIF_SEED', '0'))
    except ValueError:
        seed = 0
    try:
        mod = importlib.import_module('harness.props.%s' % a.prop)
    except ImportError:
        traceback.print_exc()
        print('MACHINERY-ERROR: no check for property %s' % a.prop)
        return 2
    chk = core.Check(a.prop, a.tier, seed)
    chk.only_parts = set(a.part.split(',')) if a.part else None
    try:
        import spectrum
        src = os.path.realpath(os.path.dirname(spectrum.__file__))
        want = os.path.realpath(os.environ.get('VERIF_REPO', '/repo')) + '/'
        if not src.startswith(want):
            raise core.MachineryError('spectrum imported from %s, not from %s' % (src, want))
        if a.replay:
            with open(a.replay) as f:
                rec = json.load(f)
            chk.replay_only = rec
            mod.replay_case(chk, rec['signature'], rec['case'])
        else:
            mod.run(chk)
    except (tlc.TlcError, core.MachineryError) as e:
        print('MACHINERY-ERROR: %s' % e)
        return 2
    except Exception:
        traceback.print_exc()
        print('MACHINERY-ERROR: unexpected exception in the harness')
        return 2
    return chk.finish()


if __name__ == '__main__':
    sys.exit(main())
