"""Single source of truth for MANIFEST.json (bin/mkmanifest)."""

HOOK_COMMITS = []

NOTES = ("Model-based verification with explicit TLA+ specifications, see DESIGN.md. "
         "exit 0 = held, exit 1 = VIOLATION line(s), exit 2 = machinery failure (never a verdict).")

_PENDING = 'check not built yet in this round (planned: DESIGN.md section 3); not claimed until its command exists'

CHECKS = {
    'C10': {
        'text': 'Levinson.tla / Toeplitz.tla: TLC enumerates every bounded lag sequence, checks the envelope (T[1,a]=[P,0..], product formula, |k|<1, Schur-Cohn step-down, nesting) on the model in exact complex-rational arithmetic, and every visited state is replayed into LEVINSON / HERMTOEP / TOEPLITZ / CHOLESKY with exact expected values; large orders via observation events validated by TLC. Homogeneity: every state is also solved after scaling the system by 2^-40 / 2^30 (exact in binary floating point); complex Toeplitz systems have a complex diagonal.',
        'design_ref': 'DESIGN.md 3/C10',
        'note': 'Exactness only inside the bounded universe (order <= 4 real, <= 3 complex, small integer lags); orders up to 40 only through quantised observation events. Trusted: TLC, the value parser, float comparison at 1e-8.',
        'technique': 'TLA+ exact-arithmetic stage machine + TLC exhaustive enumeration + spec-state replay into the code',
    },
}

CHECKS['C06'] = {
    'text': 'Axis.tla / SidesConv.tla: a stored PSD under every sequence of sides assignments (all basis vectors, NFFT 1..9/12, real and complex, histories <= 3/4); TLC checks length, power, axis alignment, equal split and path independence on the model; each state (one history) is replayed on a real Spectrum object (sides setter, get_converted_psd, frequencies) and each one-step conversion on the tools helpers and arma2psd(centerdc); values are dyadic so comparison is exact. HelpersConv.tla: the tools helpers on arbitrary (asymmetric) two-sided vectors at three scales; AxisProofs.tla is re-proved by TLAPS at each run; ObsC06.tla judges frequencies(s) of real objects for NFFT up to 1024 x 13 sampling rates over eight decades with SLen / Bin of AxisIdx.tla.',
    'design_ref': 'DESIGN.md 2.1, 3/C06',
    'note': 'By linearity only basis vectors are stored; NFFT <= 12. Trusted: TLC, the dump parser, exact float comparison of dyadic values.',
    'technique': 'TLA+ layout/conversion model + TLC exhaustive histories + per-state script replay on the real object',
}

CHECKS['C07'] = {
    'text': 'SpectrumImpl.tla (mechanism of psd.py: modified flag, cached vector + layout + scaling count, Range copies) is model-checked against the envelope SpectrumAbs.tla (invariants Fresh/LayoutOK/LengthOK/DfOK/FlagSound and the refinement Impl => Abs) over the complete finite state graph, i.e. for histories of every length; every edge of that graph is executed on real objects (spec->code) and every executed operation, plus long random walks over all 12 estimator classes x real/complex, is recorded and validated by TLC against the envelope (SpectrumTrace.tla, code->spec). A read is identified by comparison with the PSD of freshly constructed real objects. SpectrumPair.tla adds the frame condition for two objects alive together (TLC: Frame, OwnAxis), validated on interleaved walks over two real objects; a configuration the estimator refuses must stay refused on the next read.',
    'design_ref': 'DESIGN.md 2.2, 3/C07',
    'note': 'Bounded alphabets (2 data vectors of length 16/20, 2-4 values per attribute); attributes outside the list of C07 (NW, NSIG, criteria, ...) are not assigned; psd assignment is outside the histories; datatype-changing data assignments occur in the random walks and directed scripts only (the state graphs are per datatype). Trusted: TLC, the parsers, vector matching at rtol 1e-9.',
    'technique': 'TLA+ envelope + mechanism model, TLC refinement check, state-graph edge replay on real objects, TLC trace validation of recorded executions',
}

CHECKS['C08'] = {
    'text': 'Arma2Psd.tla gives the exact lag-domain description of (rho/T)|B|^2/|A|^2 for every coefficient vector of the bounded universe (TLC checks lag-domain = direct evaluation at NFFT=4, positivity, symmetry) and each state is replayed into arma2psd at even/odd NFFT; the "scaled exactly once" clause is validated by TLC on recorded traces of all 12 classes (SpectrumTrace.tla); ObsC08.tla holds the per-class sampling rule (divides / unchanged / multiplies) and validates observation events on float data with sampling in (1e-2, 1e5). The data amplitude varies over nine decades; 2 pi/df uses the requested NFFT; the axis sweep of ObsC06.tla (NFFT up to 1024 x 13 sampling rates) decides the proportional-axis clause.',
    'design_ref': 'DESIGN.md 3/C08',
    'note': 'arma2psd exact only for orders <= 2 with coefficient parts in -1..1 (-2..2 thorough); class-level clauses decided from quantised observation events (1e-6 relative). Trusted: TLC, float evaluation of roots of unity in the harness.',
    'technique': 'TLA+ exact lag-domain kernel spec + TLC enumeration + replay; TLC trace validation of recorded object traces and observation events',
}

CHECKS['C09'] = {
    'text': 'Correlation.tla defines every normalisation of the (cross-)correlation from the definition in exact complex-rational arithmetic; TLC enumerates all small x (and y, equal and unequal lengths), checks r[0]=mean|x|^2>=|r[k]|, coefficient normalisation, Hermitian lags and Gram(data matrix)=N*Toeplitz on the model, and every final state is replayed into CORRELATION and xcorr (all norms, several maxlags, list/array entry); CorrMtxEnum.tla gives the index matrix of corrmtx for every (N, m, method). N up to 200: observation events validated by ObsC09.tla. Every state is also replayed at 2^-40 / 2^30 times the data (degree-2 homogeneity, degree 0 for coeff).',
    'design_ref': 'DESIGN.md 3/C09',
    'note': 'Exact universe: real N<=4/5 (parts -1..1 / -2..2), complex N<=3/4, cross pairs N<=3; cross-correlation coeff normalisation is outside the statement. Positive semi-definiteness at large N is measured by numpy eigvalsh (quantised) and judged by the spec.',
    'technique': 'TLA+ exact definition + TLC enumeration + state replay; TLC-validated observation events',
}

CHECKS['C11'] = {
    'text': 'LinPred.tla adds step-up, prediction-error and inverse-Levinson definitions to the Levinson stage machine; TLC checks on every positive-definite state that ac<->poly<->rc conversions are mutually inverse and commute; each state is replayed into ac2poly, ac2rc, poly2ac, poly2rc, rc2poly, rc2ac (real and complex). LAR / inverse-sine / LSF: exact special points tabulated in ObsC11.tla plus quantised round-trip / monotonicity / ordering observation events for orders 1..16, validated by TLC.',
    'design_ref': 'DESIGN.md 3/C11',
    'note': 'For lar/is/lsf the specification contributes the special-point table and the expectation clauses only (transcendental maps): round trips are measured by the harness on float data. Exact universe as C10.',
    'technique': 'TLA+ exact recursions + TLC enumeration + state replay; TLC-validated observation events',
}

CHECKS['C12'] = {
    'text': 'YuleWalker.tla = Correlation.tla (biased) + LevFn.tla; TLC checks on every non-zero small data vector that the model is stable (P>0, |k|<1), that its autocorrelation equals the biased sample autocorrelation on lags 0..p, that the coefficients solve the least-squares normal equations of the autocorrelation data matrix, and nesting; every solved state is replayed into aryule, pyule (.ar/.reflection), lpc and least squares on corrmtx. N up to 200, orders up to 30: ObsC12.tla observation events (Yule-Walker residual, root/reflection moduli, sign of P, lpc agreement).',
    'design_ref': 'DESIGN.md 3/C12',
    'note': 'Exact universe: real N<=5/6, complex N<=3/4, all orders < N. Large sizes only through quantised events whose residual is computed by the harness against the definition of the biased autocorrelation.',
    'technique': 'TLA+ exact kernel composition + TLC enumeration + state replay; TLC-validated observation events',
}
CHECKS['C13'] = {
    'text': 'Burg.tla: arburg as a stage machine (in-place error arrays, denominator recursion, step-up, variance update) with the envelope evaluated from definitions: |k|<=1, step-up(ref)=a, rho=mean|x|^2 prod(1-|k_i|^2) non-increasing, error arrays = prediction-error-filter outputs, denominator = stage energy, first-order optimality of each k; every stage state is replayed into arburg, _arburg2 and pburg, and with each criterion name the result must be the spec state of order len(ref). N up to 200: ObsC13.tla. ObsC13.tla also requires every returned k_i to minimise the forward+backward error of its stage (errors rebuilt from the returned k_1..k_{i-1}), at orders up to 40 and on 60 dB tones (orders <= 4).',
    'design_ref': 'DESIGN.md 3/C13',
    'note': 'Exact universe: real N<=5/6 order<=3, complex N<=4 order<=2; degenerate stages (zero denominator, rho=0) and overflowing states are excluded and counted. Criteria values themselves (logarithms) are not modelled: the stop rule is a nondeterministic truncation.',
    'technique': 'TLA+ exact stage machine + TLC enumeration + state replay; TLC-validated observation events',
}

CHECKS['C14'] = {
    'text': 'Covar.tla writes the covariance and modified-covariance fits as least-squares problems on the corrmtx data matrices and solves the normal equations by exact Gaussian elimination (LinAlg.tla); TLC checks residual orthogonality, error = squared residual norm and exact recovery of noiseless unit-circle exponentials on the whole bounded space; every solved state is replayed into arcovar, modcovar, pcovar.ar, pmodcovar.ar and, where every lower-order problem is well posed, into arcovar_marple / modcovar_marple (first p coefficients, zero tail, per-sample minimum). N up to 128, orders up to 20: ObsC14.tla. ObsC14.tla also compares the coefficients with an independent least-squares solve to cond*1e-12 on records built to be ill conditioned; the Marple recursions must not raise when every lower-order problem is well posed (zero samples included).',
    'design_ref': 'DESIGN.md 3/C14',
    'note': 'Exact universe: N<=6/7, p<=2/3 real, N<=5 p<=2 complex; singular normal matrices, exact solutions with |a|>1e3 and (for the fast recursions) data with zero samples or non-generic lower orders are excluded and counted. Large sizes: quantised residuals computed from the code-provided data matrix.',
    'technique': 'TLA+ exact least squares + TLC enumeration + state replay; TLC-validated observation events',
}

CHECKS['C16'] = {
    'text': 'Minvar.tla (EXTENDS Burg.tla, LinAlg.tla): exact inverse of the m x m Toeplitz matrix implied by the order m-1 Burg model gives the lag-domain coefficients of e^H R^-1 e; TLC checks that Musicus formula (the mechanism of minvar.py) equals them, trace(R^-1)>0 and positivity on the NFFT=4 grid; every state is replayed into minvar (even/odd NFFT, three sampling rates; PSD, AR vector with leading 1, reflection coefficients) and pminvar. N<=128, m<=16: ObsC16.tla. ObsC16.tla draws amplitudes from 1e-4..1e5 and includes 60 dB tones; the returned reflection coefficients must minimise each Burg stage.',
    'design_ref': 'DESIGN.md 3/C16',
    'note': 'Exact universe: m in 2..3, N in 4..5/6; the harness evaluates roots of unity. Large sizes: the quadratic form is recomputed by the harness with numpy (inverse Levinson transcription of LevFn.tla + matrix inverse), ill-conditioned R excluded.',
    'technique': 'TLA+ exact envelope vs mechanism + TLC enumeration + state replay; TLC-validated observation events',
}

CHECKS['C01'] = {
    'text': 'Periodogram.tla (on Correlation.tla): the periodogram of windowed data y=x*w in the lag domain (biased autocorrelation of y), exact for every NFFT; TLC checks lag-domain = direct DFT, Parseval and real symmetry on the 4-point grid for every small y. Each state is replayed with x=y/w for the window names (all 29 in the thorough tier, a rotating subset per state in the quick tier) into speriodogram (1-D and 3-column 2-D), the Periodogram class and, rectangular window, CORRELOGRAMPSD with both correlation back ends (Wiener-Khinchin) at even/odd/prime/power-of-two NFFT >= N. Float data up to N=512: ObsC01.tla (Parseval, bin counts, class = function, real bins = first half, Wiener-Khinchin). ObsC01.tla also compares every bin with an extended-precision DFT under a per-bin error model on large-dynamic-range data (a component 200 dB below the strongest bin must come out).',
    'design_ref': 'DESIGN.md 3/C01',
    'note': 'Exact universe: real N<=4/5, complex N<=3/4 (Gaussian-integer windowed data); windows whose samples are not finite are skipped here (C20); the harness evaluates roots of unity. NFFT < N is outside the statement.',
    'technique': 'TLA+ exact lag-domain definition + TLC enumeration + state replay with x=y/w; TLC-validated observation events',
}

CHECKS['C20'] = {
    'text': 'Windows.tla: exact closed forms (fixed-point cosine sums with the rational values of cos(2 pi j/M), M in {1,2,3,4,6}; polynomial/rational windows for every N) for 15 classical windows and their parameters, with symmetry / max<=1 / centre=1 checked by TLC on the exact samples; every state replayed into create_window, the window_* function and the Window object for every alias. WindowFactory.tla: the 29 names, alias classes and documented parameters as a decision table, every (name, keyword) pair replayed (accept / reject, forwarded exactly, parameter has an effect, aliases identical, Window object consistent). ObsC20.tla: generic clauses for all 29 names, all N in 1..512 and sampled N up to 16384 with random shape parameters (samples quantised to 1e-6 for N<=64, measured summaries above).',
    'design_ref': 'DESIGN.md 3/C20',
    'note': 'Closed forms are not decided for the transcendental windows (kaiser, gaussian, chebwin, poisson, lanczos, riemann, bohman, taylor, poisson_hanning): only the generic clauses and the factory table apply to them. The periodic flat-top mode is exempt from symmetry.',
    'technique': 'TLA+ exact closed forms + decision table enumerated by TLC and replayed; TLC-validated observation events',
}

CHECKS['C03'] = {
    'text': 'Scaling theorems are TLC invariants of the kernel specifications (Correlation: Raw(cx)=|c|^2 Raw(x); Yule-Walker/Levinson: coefficients and reflection coefficients invariant, variance x |c|^2, for c in {2,-1,i,1+i}) on the whole bounded universe, whose members x and c*x are all replayed by the kernel checks. On float data every estimator of the zoo (12 classes, 18 functional forms) is evaluated on x and c*x, |c| log-uniform in [1e-6,1e6] with complex c for complex data, and ObsC03.tla holds the law table (|c|^2 for PSDs, variances and correlations; invariant coefficients, weights, taper eigenvalues, MUSIC; |c| for EV and singular values; linear eigenspectra) plus unchanged integer decisions (AIC/MDL subspace dimension, Burg order for six criteria). Both ends |c| = 1e-6 and 1e6 are exercised in every run.',
    'design_ref': 'DESIGN.md 3/C03',
    'note': 'The factor-1e6 dynamic range is decided from quantised observation events (1e-4 relative) only; the exact universe reaches |c|<=2.',
    'technique': 'TLC invariants (scaling theorems) on exact kernels + TLC-validated observation events with a law table in TLA+',
}

CHECKS['C02'] = {
    'text': 'ClassLayout.tla (on Axis.tla): expected resolved NFFT, default layout, number of values and bin per entry for every (datatype, N even/odd, NFFT argument None/nextpow2/even/odd), TLC-checked against the length rule of the statement; every configuration is replayed on all twelve classes (psd, frequencies(), NFFT, sides, real and finite). Tone clause: ObsC02.tla holds the tolerance table (exact: periodogram, correlogram, covariance, modified covariance, MUSIC, EV; one bin: Burg, Yule-Walker, ARMA, minimum variance; taper bandwidth: multitaper; MA exempt; real sinusoids within ceil(NFFT/N)+1 bins) and validates where each class peaks on its own reported axis for on-grid complex tones at positive and negative bins and real sinusoids, even and odd NFFT, three sampling rates.',
    'design_ref': 'DESIGN.md 3/C02',
    'note': 'The tone clause is decided from observation events on synthetic tones in 1e-3 noise with modest orders (domain calibrated on the repaired tree); the exact small-scope tone clause of the design (Cyc data) was not built.',
    'technique': 'TLA+ layout table enumerated by TLC and replayed on every class; TLC-validated observation events with the tolerance table in TLA+',
}

CHECKS['C04'] = {
    'text': 'Periodogram.tla carries, as TLC invariants over every small complex/real x, the lag-domain theorems behind C04: modulation by i^n multiplies lag d by i^d (hence a circular shift by exactly NFFT/4 bins, direction new[k]=old[k-m], checked on the 4-point grid), conjugation mirrors bins, conjugate time reversal leaves the lags unchanged. ObsC04.tla holds which classes must satisfy which clause (one-sided doubling: AR/MA/ARMA, minimum variance, multitaper; time-reversal invariance: periodogram, correlogram, Yule-Walker, Burg, modified covariance, multitaper, minimum variance) and validates, for all twelve classes, shifts m (incl. 1, NFFT/4, NFFT-1, random), mirror, one-sided = 2 x half and reversal on float data at even and odd NFFT, together with the best-aligning shift.',
    'design_ref': 'DESIGN.md 3/C04',
    'note': 'Class-level clauses are decided from quantised observation events (1e-7 relative; worst rounding error measured 1e-12). The exact kernel theorem covers the periodogram/correlogram lag domain only.',
    'technique': 'TLC invariants (modulation/conjugation/reversal theorems) on the exact kernel + TLC-validated observation events with the class table in TLA+',
}
CHECKS['C05'] = {
    'text': 'In every kernel specification the spectrum is a function of NFFT-free lag/coefficient-domain data, evaluated by the replays at several NFFT (even, odd, multiples); Periodogram.tla states grid consistency (NFFT=2 spectrum = NFFT=4 spectrum at even bins) as a TLC invariant. ObsC05.tla holds the admissibility table and the clauses; the driver compares, for all twelve classes and pairs (NFFT, c NFFT), c in {2,3,4,5}, incl. odd NFFT, the PSD at common frequencies, the length of the finer grid and the model parameters (AR, MA, variance, reflection coefficients, singular values, taper eigenvalues). Each object must report the requested grid (NFFT, df, frequencies()) after computing.',
    'design_ref': 'DESIGN.md 3/C05',
    'note': 'Decided at class level from quantised observation events (1e-7 relative).',
    'technique': 'TLC invariant (grid consistency) on the exact kernel + TLC-validated observation events with the admissibility table in TLA+',
}

CHECKS['C15'] = {
    'text': 'Arma.tla (on Correlation.tla, LevFn.tla, LinAlg.tla): ma() as two chained exact Yule-Walker fits and, for P=Q, the AR part of arma_estimate as the exact least-squares solution of the modified Yule-Walker equations over unbiased lags; TLC checks Q coefficients, invertibility (second-fit reflection coefficients < 1) and positive variance; states are replayed into ma, pma (.ma/.rho) and arma_estimate (AR values and count). ObsC15.tla holds the documented domains and validates on float data (N 16..256): MA/ARMA coefficient counts on both sides of the P<=4 solver switch, MA zeros inside the unit circle, positive finite variance, the modified Yule-Walker normal equations for P=Q, and for every AR/MA/ARMA class: PSD positive, proportional to |B|^2/|A|^2 of the exposed coefficients with constant rho/sampling when rho is exposed. Narrow-band records fitted with P=Q in {6,8,10} exercise ill-conditioned systems: the AR coefficients are compared with an independent least-squares solve to cond*1e-12.',
    'design_ref': 'DESIGN.md 3/C15',
    'note': 'Exact universe tiny (N<=5/6, M<=3, P=Q<=2, lag<=4); the P>4 branch and the MA stage of arma_estimate are decided from observation events only; |B|^2/|A|^2 is evaluated by the harness with numpy FFT.',
    'technique': 'TLA+ exact kernel composition + TLC enumeration + state replay; TLC-validated observation events with the domain table in TLA+',
}

CHECKS['C19'] = {
    'text': 'MultiTaper.tla: pmtm / MultiTapering with caller-supplied rational tapers on the exact 4-point grid (eigenspectra, unity and eigen weights, class output; TLC checks non-negativity, Parseval per taper and real symmetry over every small x); each state is replayed into pmtm(e=, v=) (eigenspectra, weights, eigenvalues) and MultiTapering(e=, v=) (psd, doubled one-sided for real data). ObsC19.tla validates, with genuine Slepian tapers, N up to 256/1024, k from 1 to 2NW, NFFT >= N and the three methods: eigenspectra = DFT of taper*data, returned eigenvalues, unity/eigen weights, adaptive weights real, in [0, 1/lambda] and equal to Thomson formula at the converged spectrum, class psd = weighted mean (folded for real data), real and non-negative, precomputed tapers = internally computed. Supplied tapers together with NW / k, and k > 2NW, are directed cases.',
    'design_ref': 'DESIGN.md 3/C19',
    'note': 'Exact part: N in {3,4}, NFFT=4, unity/eigen weights only; the adaptive fixed point is decided from events with a tolerance of 0.25 of the largest weight (the iteration stops on a mean absolute change; measured worst case 0.05). dpss itself is taken as given (C18 not claimed).',
    'technique': 'TLA+ exact 4-point-grid model + TLC enumeration + state replay; TLC-validated observation events',
}

CHECKS['C17'] = {
    'text': 'Music.tla: the exact denominator of the MUSIC pseudo-spectrum for noiseless sums of K < P <= 4 exponentials on the 4-point grid (noise projector I - S^H (S S^H)^-1 S by exact Gaussian elimination; TLC checks that it vanishes exactly at the tone bins, is positive and at most P elsewhere and sums to 4(P-K)), replayed into eigen(music) and pmusic at NFFT 4, 8, 12 and three record lengths (the four denominators compared after normalising by their largest member: C17 pins peaks and positivity, not the normalisation). EigenArgs.tla: (1) the argument-validation decision table - NSIG / threshold / AIC-MDL rule mutually exclusive, 0 <= NSIG < P, method in {music, ev} - every combination enumerated by TLC and replayed into eigen, music, ev, pmusic, pev (accept / reject, an explicit NSIG makes the criterion irrelevant); (2) the forward-backward data matrix of order P as an index map (TLC checks index ranges and the Toeplitz / Hankel structure), applied by the harness to integer data and its singular values compared with the returned ones. ObsC17.tla validates, on noiseless sums of K on-grid exponentials (or K/2 real sinusoids) with subspace dimension K, K < P <= 16, N in 2P..128, several NFFT incl. odd: the K largest local maxima within one bin of the truth on the reported axis, positivity everywhere, singular values = those of the data matrix, non-increasing, exactly K non-negligible.',
    'design_ref': 'DESIGN.md 3/C17',
    'note': 'Exact part: MUSIC only (EV divides by the vanishing noise singular values of noiseless data), 4-point grid, P <= 4. The peak clause and the singular-value clause at realistic sizes are decided from observation events (numpy SVD of the matrix rebuilt by the harness).',
    'technique': 'TLA+ exact null-spectrum model + decision table + index-map model enumerated by TLC and replayed; TLC-validated observation events',
}

# envelopes shared by several properties (DESIGN.md section 2): "the result is a function of what the property quantifies over"
_ENVELOPES = [
    (('C01', 'C09', 'C10', 'C11', 'C12', 'C13', 'C14', 'C15', 'C16', 'C17', 'C19', 'C20'),
     ' Session.tla: every call sequence over a per-property alphabet of call tokens (length 2 / 3) is enumerated by TLC and replayed in one process; each result must equal the result of the same token computed alone in a fresh interpreter.'),
    (('C01', 'C03', 'C09', 'C12', 'C13', 'C14', 'C15', 'C16', 'C17', 'C19'),
     ' Carrier.tla: integer-valued records in every container (int8..uint64, python ints, float32) at the magnitude levels TLC finds admissible from the dtype ranges (the largest one per container in the quick tier); each must give the result of the same values as float64; and double-precision records in other memory layouts / wrappers (read-only, big-endian, negative stride, column of a 2-D array, longdouble, list, masked array). TLC also proves the wrap-around mechanism of narrow carriers exact only when the samples are promoted first.'),
    (('C01', 'C09', 'C10', 'C12', 'C13', 'C14', 'C15', 'C16', 'C17', 'C19'),
     ' Units.tla: the record multiplied by 2^e (|e| up to 480, double and single precision; TLC decides admissibility from the declared degree of the algorithm, with a factor 2 of slack); each output must be 2^(degree*e) times the output for e = 0.'),
    (('C02', 'C13', 'C17', 'C19'),
     ' Quiet.tla: the same call with its diagnostics flag (verbose / show) and / or DEBUG logging must return the quiet result.'),
]
for _props, _txt in _ENVELOPES:
    for _p in _props:
        CHECKS[_p]['text'] += _txt

CHECKS['C18'] = {
    'text': 'No exact finite model exists for the Slepian eigenproblem (irrational, solved by inverse iteration in C), so nothing is model-checked exhaustively: ObsC18.tla holds the domain (N >= 8, 1 <= NW < N/2, k <= 2NW or default) and the clause table, and TLC validates one observation event per call of dpss over N in 8..4096 x 12 (quick) / 21 (thorough) half-bandwidths incl. non-half-integer ones x k in {1, floor(2NW), mid, default}: shape, orthonormality, ratios in (0,1] and non-increasing, ratio = energy fraction in band and A v = lambda v against the DEFINING sinc kernel built from its formula (N <= 1024), leading eigenvalues against an independent eigen-solver (N <= 256: the oracle the statement names), symmetry / antisymmetry, sign convention, and independence from an earlier result that the caller overwrote.',
    'design_ref': 'DESIGN.md 4',
    'note': 'Observation events only (category exploration): the specification contributes the domain and the case analysis, the residuals are computed by the driver with numpy. Tolerances: 1e-8, and 1e-5 for the two residuals limited by the single-precision NW handed to the C routine (measured 2e-8 / 2e-7).',
    'technique': 'TLC-validated observation events against a TLA+ clause table; definition (sinc kernel) as oracle',
    'category': 'exploration',
}

NOT_APPLICABLE = {}
for _p in ['C%02d' % i for i in range(1, 21)]:  # anything not built yet would be listed here
    if _p not in CHECKS and _p not in NOT_APPLICABLE:
        NOT_APPLICABLE[_p] = _PENDING
