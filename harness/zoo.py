"""The estimator zoo: every PSD class and functional estimator behind one interface.

build(name, x, nfft, sampling=1., scale=False, **over) -> object (class form)
outputs(name, obj) -> dict of named outputs (psd, ar, ma, rho, reflection, sv, weights, ...)
functional(name, x, nfft) -> dict of named outputs of the function form
"""
import numpy as np

CLASSES = ['Periodogram', 'pcorrelogram', 'pburg', 'pyule', 'pcovar', 'pmodcovar', 'parma', 'pma',
           'pminvar', 'pmusic', 'pev', 'MultiTapering']
# variants of a class with another method (same class-level clauses): 'Name:variant'
VARIANTS = ['MultiTapering:adapt', 'MultiTapering:unity', 'MultiTapering:precomputed']

# model orders etc. used throughout (documented domain, modest)
PARAMS = {'order': 4, 'lag': 12, 'P': 3, 'Q': 3, 'armalag': 12, 'maQ': 3, 'maM': 10, 'IP': 8, 'NSIG': 2,
          'NW': 2.5, 'k': 4, 'mtm': 'eigen', 'corrlag': 10}


def build(name, x, nfft, sampling=1.0, scale=False, **over):
    import spectrum as sp
    p = dict(PARAMS)
    p.update(over)
    if ':' in name:
        name, variant = name.split(':')
        if name == 'MultiTapering':
            p['mtm'] = variant
        elif name == 'Periodogram':
            p['window'] = variant
        elif name == 'pburg':
            p['criteria'] = variant
    kw = dict(NFFT=nfft, sampling=sampling, scale_by_freq=scale)
    if name == 'Periodogram':
        return sp.Periodogram(x, window=p.get('window', 'hann'), **kw)
    if name == 'pcorrelogram':
        return sp.pcorrelogram(x, lag=p['corrlag'], **kw)
    if name == 'pburg' and p.get('criteria'):
        return sp.pburg(x, p['order'], criteria=p['criteria'], **kw)
    if name in ('pburg', 'pyule', 'pcovar', 'pmodcovar', 'pminvar'):
        return getattr(sp, name)(x, p['order'], **kw)
    if name == 'parma':
        return sp.parma(x, p['P'], p['Q'], p['armalag'], **kw)
    if name == 'pma':
        return sp.pma(x, p['maQ'], p['maM'], **kw)
    if name in ('pmusic', 'pev'):
        return getattr(sp, name)(x, p['IP'], NSIG=p['NSIG'], **kw)
    if name == 'MultiTapering':
        if p['mtm'] == 'precomputed':
            # the caller computes the tapers once and hands the same arrays to every estimate
            key = (len(x), p['NW'], p['k'])
            if key not in _DPSS:
                _DPSS[key] = sp.dpss(len(x), p['NW'], p['k'])
            v, e = _DPSS[key]
            return sp.MultiTapering(x, e=e, v=v, method='eigen', **kw)
        return sp.MultiTapering(x, NW=p['NW'], k=p['k'], method=p['mtm'], **kw)
    raise KeyError(name)


_DPSS = {}


def window_variants(idx, n=3):
    """n window names for the periodogram class, rotating with idx over all names"""
    from spectrum.window import window_names
    names = sorted(window_names)
    return ['Periodogram:' + names[(idx * n + i) % len(names)] for i in range(n)]


def outputs(name, obj):
    name = name.split(':')[0]
    out = {'psd': np.array(obj.psd)}
    for attr, key in (('ar', 'ar'), ('ma', 'ma'), ('rho', 'rho'), ('reflection', 'reflection'),
                      ('eigenvalues', 'sv'), ('weights', 'weights')):
        v = getattr(obj, attr, None)
        if name == 'MultiTapering' and key == 'sv':
            key = 'taper_eigenvalues'
        if v is not None:
            out[key] = np.array(v)
    return out


def readback_dev(obj, nfft, sampling):
    """How far the grid an object REPORTS after computing is from the grid that was requested:
    NFFT and df read back, len(frequencies()) against len(psd), every axis entry against bin*sampling/NFFT.
    0.0 when identical, inf on any discrete disagreement."""
    psd = np.asarray(obj.psd)
    f = np.asarray(obj.frequencies(), dtype=float)
    if obj.NFFT != nfft or len(f) != len(psd):
        return float('inf')
    k = np.arange(len(f), dtype=float)
    if obj.sides == 'centerdc':
        k = k - nfft // 2
    dev = float(np.max(np.abs(f - k * sampling / nfft))) / sampling if len(f) else 0.0
    return max(dev, abs(obj.df - sampling / float(nfft)) / (sampling / float(nfft)))


def coexistence(names, rng, n=32, cplx=False):
    """Objects that are alive at the same time must not influence each other (class-level attributes, shared helper
    objects, module-level caches keyed too coarsely).  For every name two objects with different data, NFFT and
    sampling are BUILT first; only then are they evaluated, in reverse order; each one is finally compared with a
    twin built and evaluated in isolation afterwards.  -> list of dict(cls, psd_dev, axis_dev, par_dev, raised)."""
    specs = []
    for i, name in enumerate(names):
        for j, (nfft, samp) in enumerate(((n, 1.0), (2 * n + 1, 8.0))):
            x = signal(rng, n, cplx, ['tones', 'noise'][j])
            over = {'order': 4 - j, 'P': 3 - j, 'Q': 3 - j, 'maQ': 3 - j, 'IP': 8 - 2 * j}
            specs.append((name, x, nfft, samp, over))
    objs = []
    for name, x, nfft, samp, over in specs:
        try:
            objs.append(build(name, x.copy(), nfft, samp, bool(len(objs) % 2), **over))
        except Exception as e:
            objs.append(e)
    firsts = []
    for (name, x, nfft, samp, over), obj in reversed(list(zip(specs, objs))):
        try:
            firsts.append((outputs(name, obj), np.array(obj.frequencies(), dtype=float), float(obj.df)))
        except Exception as e:
            firsts.append(e)
    firsts.reverse()
    res = []
    for k, ((name, x, nfft, samp, over), obj, first) in enumerate(zip(specs, objs, firsts)):
        ev = {'cls': name, 'raised': isinstance(obj, Exception) or isinstance(first, Exception), 'psd_dev': 0.0, 'axis_dev': 0.0, 'par_dev': 0.0}
        if not ev['raised']:
            try:
                twin = build(name, x.copy(), nfft, samp, bool(k % 2), **over)
                ot = outputs(name, twin)
                o1, f1, df1 = first
                # ... and the object read AGAIN now, after everybody else has been computed
                o2 = outputs(name, obj)
                f2 = np.array(obj.frequencies(), dtype=float)
                ft = np.array(twin.frequencies(), dtype=float)
                ev['psd_dev'] = max(rel_dev(o1['psd'], ot['psd']), rel_dev(o2['psd'], ot['psd']))
                ev['axis_dev'] = max(rel_dev(f1, ft), rel_dev(f2, ft), abs(df1 - twin.df) / twin.df, abs(obj.df - twin.df) / twin.df)
                pd = 0.0
                for key in ot:
                    if key != 'psd':
                        for o in (o1, o2):
                            pd = max(pd, rel_dev(o[key], ot[key]) if key in o else float('inf'))
                ev['par_dev'] = pd
            except Exception:
                ev['raised'] = True
        res.append(ev)
    return res


FUNCTIONS = ['speriodogram', 'speriodogram-2d', 'CORRELOGRAMPSD', 'CORRELATION', 'xcorr', 'arburg', 'aryule', 'arcovar', 'modcovar',
             'arcovar_marple', 'modcovar_marple', 'arma_estimate', 'ma', 'minvar', 'music', 'ev', 'pmtm-unity',
             'pmtm-eigen', 'pmtm-adapt']


def functional(name, x, nfft, **over):
    import spectrum as sp
    p = dict(PARAMS)
    p.update(over)
    if name == 'speriodogram':
        return {'psd': sp.speriodogram(x, NFFT=nfft, detrend=False, scale_by_freq=False, window='hamming')}
    if name == 'speriodogram-2d':
        X = np.column_stack([x, x[::-1], np.conj(x) * 0.5])       # three columns, column-wise estimate
        return {'psd': sp.speriodogram(X, NFFT=nfft, detrend=False, scale_by_freq=False, window='hamming')}
    if name == 'CORRELOGRAMPSD':
        return {'psd': sp.CORRELOGRAMPSD(x, lag=p['corrlag'], NFFT=nfft, norm='biased')}
    if name == 'CORRELATION':
        return {'r_biased': sp.CORRELATION(x, maxlags=p['corrlag'], norm='biased'),
                'r_unbiased': sp.CORRELATION(x, maxlags=p['corrlag'], norm='unbiased'),
                'r_coeff': sp.CORRELATION(x, maxlags=p['corrlag'], norm='coeff')}
    if name == 'xcorr':
        return {'r_biased': sp.xcorr(x, maxlags=p['corrlag'], norm='biased')[0]}
    if name == 'arburg':
        a, rho, k = sp.arburg(x, p['order'])
        return {'ar': a, 'rho': rho, 'reflection': k}
    if name == 'aryule':
        a, rho, k = sp.aryule(x, p['order'])
        return {'ar': a, 'rho': rho, 'reflection': k}
    if name == 'arcovar':
        a, e = sp.arcovar(x, p['order'])
        return {'ar': a, 'rho': e}
    if name == 'modcovar':
        a, e = sp.modcovar(x, p['order'])
        return {'ar': a, 'rho': e}
    if name == 'arcovar_marple':
        r = sp.arcovar_marple(np.asarray(x, dtype=complex), p['order'])
        return {'ar': r[0][:p['order']], 'rho': r[1]}
    if name == 'modcovar_marple':
        r = sp.modcovar_marple(np.asarray(x, dtype=complex), p['order'])
        return {'ar': r[0][:p['order']], 'rho': r[1]}
    if name == 'arma_estimate':
        a, b, rho = sp.arma_estimate(x, p['P'], p['Q'], p['armalag'])
        return {'ar': a, 'ma': b, 'rho': rho}
    if name == 'ma':
        b, rho = sp.ma(x, p['maQ'], p['maM'])
        return {'ma': b, 'rho': rho}
    if name == 'minvar':
        psd, a, k = sp.minvar(x, p['order'], NFFT=nfft)
        return {'psd': psd, 'ar': a, 'reflection': k}
    if name in ('music', 'ev'):
        from spectrum.eigenfre import eigen
        psd, s = eigen(x, p['IP'], NSIG=p['NSIG'], method=name, NFFT=nfft)
        return {('pseudo_music' if name == 'music' else 'pseudo_ev'): psd, 'sv': s}
    if name.startswith('pmtm-'):
        sk, w, e = sp.pmtm(x, NW=p['NW'], k=p['k'], NFFT=nfft, method=name.split('-')[1])
        return {'eigenspectra': sk, 'weights': w, 'taper_eigenvalues': e}
    raise KeyError(name)


def signal(rng, n, cplx, kind='noise'):
    t = np.arange(n)
    if kind == 'noise':
        x = rng.randn(n)
        if cplx:
            x = x + 1j * rng.randn(n)
    elif kind == 'arma':
        e = rng.randn(n + 50) + (1j * rng.randn(n + 50) if cplx else 0)
        x = np.zeros(n + 50, dtype=complex if cplx else float)
        for i in range(2, n + 50):
            x[i] = 0.6 * x[i - 1] - 0.3 * x[i - 2] + e[i] + 0.4 * e[i - 1]
        x = x[50:]
    else:  # tones in noise
        if cplx:
            x = np.exp(2j * np.pi * 0.13 * t) + 0.6 * np.exp(-2j * np.pi * 0.27 * t + 1j) + 0.3 * (rng.randn(n) + 1j * rng.randn(n))
        else:
            x = np.cos(2 * np.pi * 0.13 * t) + 0.6 * np.cos(2 * np.pi * 0.27 * t + 1) + 0.3 * rng.randn(n)
    return x


def rel_dev(a, b):
    """max |a-b| / max|b| (inf on shape mismatch or non-finite input)"""
    a = np.asarray(a, dtype=complex)
    b = np.asarray(b, dtype=complex)
    if a.shape != b.shape or a.size == 0:
        return float('inf')
    if not (np.all(np.isfinite(a)) and np.all(np.isfinite(b))):
        return float('inf')
    s = float(np.max(np.abs(b)))
    if s == 0:
        return float(np.max(np.abs(a)))
    return float(np.max(np.abs(a - b)) / s)
