"""Helpers shared by kernel replay adapters."""
import numpy as np

TOL = 1e-8


class InputMutated(Exception):
    """The callee modified an array it was given (every property quantifies over 'the data':
    an estimator that overwrites its input breaks each clause relating two calls on the same
    data - nesting, NFFT independence, class vs function - for the caller's next call)."""


def call_guard(f, *a, **kw):
    """-> (True, result) or (False, exception).  Catches every exception of the callee
    (assertions included) - what the exception *means* is decided by the caller.
    ndarray arguments are snapshotted: a callee that modifies one is reported as the
    exception InputMutated."""
    snaps = [(i, v, v.copy()) for i, v in enumerate(a) if isinstance(v, np.ndarray)]
    snaps += [(k, v, v.copy()) for k, v in kw.items() if isinstance(v, np.ndarray)]
    try:
        with np.errstate(all='ignore'):
            res = f(*a, **kw)
    except Exception as e:  # noqa
        return False, e
    for key, v, before in snaps:
        if v.shape != before.shape or not np.array_equal(v, before, equal_nan=True):
            return False, InputMutated('%s modified its argument %r in place' % (getattr(f, '__name__', 'callee'), key))
    return True, res


def cmp_vec(obs, exp, tol=TOL, name=''):
    """None when obs matches exp, otherwise a short description of the mismatch."""
    try:
        obs = np.asarray(obs)
    except Exception as e:
        return '%s not an array: %r' % (name, e)
    exp = np.asarray(exp)
    if obs.shape != exp.shape:
        return '%s shape %s, expected %s' % (name, obs.shape, exp.shape)
    if obs.size == 0:
        return None
    if obs.dtype == object:
        return '%s has dtype object' % name
    if not np.all(np.isfinite(obs)):
        return '%s has non-finite entries' % name
    s = max(1.0, float(np.max(np.abs(exp))))
    err = float(np.max(np.abs(obs - exp)))
    if err > tol * s:
        i = int(np.argmax(np.abs(obs - exp)))
        return '%s differs at index %d: observed %r expected %r' % (name, i, obs.flat[i], exp.flat[i])
    return None


def cmp_scalar(obs, exp, tol=TOL, name=''):
    try:
        o = complex(obs)
    except Exception as e:
        return '%s not a scalar: %r' % (name, e)
    if not np.isfinite(o):
        return '%s is not finite' % name
    if abs(o - exp) > tol * max(1.0, abs(exp)):
        return '%s observed %r expected %r' % (name, obs, exp)
    return None
