"""Helpers shared by kernel replay adapters."""
import numpy as np

TOL = 1e-8


class InputMutated(Exception):
    """The callee modified an array it was given (every property quantifies over 'the data':
    an estimator that overwrites its input breaks each clause relating two calls on the same
    data - nesting, NFFT independence, class vs function - for the caller's next call)."""


def np_int(v, idx):
    """an integer argument as a python int or, every other call, as a numpy integer scalar (what np.arange, len() of
    shapes and integer arithmetic on arrays hand out); the call sites where this is used accept both on the unchanged tree"""
    return [int(v), np.int64(v), int(v), np.int32(v)][idx % 4]


class ResultMutated(Exception):
    """A result returned by an EARLIER call changed when the function was called again: the function hands out
    its own work buffers (every property relating two results of the same function - nesting, scaling, NFFT
    independence - is about values the caller still holds)."""


_EARLIER = {}       # function name -> list of (arrays of an earlier result, their snapshots)


def _arrays_of(res):
    if isinstance(res, np.ndarray):
        return [res]
    if isinstance(res, (tuple, list)):
        return [r for r in res if isinstance(r, np.ndarray)]
    return []


def call_guard(f, *a, **kw):
    """-> (True, result) or (False, exception).  Catches every exception of the callee
    (assertions included) - what the exception *means* is decided by the caller.
    ndarray arguments are snapshotted: a callee that modifies one is reported as the
    exception InputMutated."""
    snaps = [(i, v, v.copy()) for i, v in enumerate(a) if isinstance(v, np.ndarray)]
    snaps += [(k, v, v.copy()) for k, v in kw.items() if isinstance(v, np.ndarray)]
    try:
        with np.errstate(all='ignore'):
            res = f(*a, **kw)
    except Exception as e:  # noqa
        return False, e
    for key, v, before in snaps:
        if v.shape != before.shape or not np.array_equal(v, before, equal_nan=True):
            return False, InputMutated('%s modified its argument %r in place' % (getattr(f, '__name__', 'callee'), key))
    # results of the two previous calls of the same function must still hold what they held
    name = getattr(f, '__name__', None)
    if name and name != '<lambda>':
        hist = _EARLIER.setdefault(name, [])
        for arrs, copies in hist:
            for arr, cp in zip(arrs, copies):
                if arr.shape != cp.shape or not np.array_equal(arr, cp, equal_nan=True):
                    hist[:] = []
                    return False, ResultMutated('a result returned by an earlier call of %s changed during a later call' % name)
        mine = _arrays_of(res)
        if mine:
            hist.append((mine, [m.copy() for m in mine]))
            del hist[:-2]
    return True, res


def cmp_vec(obs, exp, tol=TOL, name=''):
    """None when obs matches exp, otherwise a short description of the mismatch."""
    try:
        obs = np.asarray(obs)
    except Exception as e:
        return '%s not an array: %r' % (name, e)
    exp = np.asarray(exp)
    if obs.shape != exp.shape:
        return '%s shape %s, expected %s' % (name, obs.shape, exp.shape)
    if obs.size == 0:
        return None
    if obs.dtype == object:
        return '%s has dtype object' % name
    if not np.all(np.isfinite(obs)):
        return '%s has non-finite entries' % name
    s = max(1.0, float(np.max(np.abs(exp))))
    err = float(np.max(np.abs(obs - exp)))
    if err > tol * s:
        i = int(np.argmax(np.abs(obs - exp)))
        return '%s differs at index %d: observed %r expected %r' % (name, i, obs.flat[i], exp.flat[i])
    return None


def cmp_scalar(obs, exp, tol=TOL, name=''):
    try:
        o = complex(obs)
    except Exception as e:
        return '%s not a scalar: %r' % (name, e)
    if not np.isfinite(o):
        return '%s is not finite' % name
    if abs(o - exp) > tol * max(1.0, abs(exp)):
        return '%s observed %r expected %r' % (name, obs, exp)
    return None


# Homogeneity: every kernel of the library is homogeneous in its data (degree 1 or 2), and the exact universe
# is closed under scaling by a power of two (exact in binary floating point).  Replaying a state at a scale far
# from 1 and un-scaling the result exposes absolute thresholds / additive constants hidden in the code.
SCALES = (2.0 ** -40, 2.0 ** 30)


def scale_for(idx):
    return SCALES[idx % len(SCALES)]


def entry_variants(values, cplx, idx=0, full=False):
    """Entry paths for the same exact samples (the exact universe is integer valued, so every
    dtype represents it exactly): -> list of (name, object, tolerance).

    complex data : complex128 ndarray, list of python complex, complex64 ndarray
    real data    : float64 ndarray, list of python ints, int64 / int32 / int16 ndarray, float32 ndarray,
                   complex128 ndarray with zero imaginary part is NOT included here (it is a different
                   datatype for the estimator classes; kernels that accept it list it themselves)
    Unless `full`, the default path plus ONE other path chosen by `idx` is returned, so that over the
    states of a model every path is exercised many times at a fraction of the cost."""
    import numpy as np
    if cplx:
        base = np.array(values, dtype=complex)
        allv = [('complex128', base, TOL),
                ('list-complex', [complex(v) for v in base], TOL),
                ('complex64', base.astype(np.complex64), 2e-5)]
    else:
        base = np.array(values, dtype=float)
        ints = np.all(base == np.round(base))
        allv = [('float64', base, TOL)]
        if ints:
            allv += [('list-int', [int(v) for v in base], TOL),
                     ('int64', base.astype(np.int64), TOL),
                     ('int32', base.astype(np.int32), TOL),
                     ('int16', base.astype(np.int16), TOL)]
        allv += [('float32', base.astype(np.float32), 2e-5)]
    # the same samples as a non-contiguous view (every other element of a longer buffer whose other half is garbage):
    # a column of a 2-D record, x[::2], z.real are all views of this kind
    big = np.empty(2 * len(base), dtype=base.dtype)
    big[0::2] = base
    big[1::2] = 77 - base[::-1] * 3
    allv.append(('strided-view', big[0::2], TOL))
    if full or len(allv) <= 2:
        return allv
    return [allv[0], allv[1 + idx % (len(allv) - 1)]]


def fresh(x):
    """a new argument object holding the same samples with the same memory layout (a copy of a strided view is a new
    strided view: `.copy()` would make it contiguous)"""
    if isinstance(x, list):
        return list(x)
    x = np.asarray(x)
    if x.ndim == 1 and x.size and not x.flags['C_CONTIGUOUS']:
        big = np.empty(2 * len(x), dtype=x.dtype)
        big[0::2] = x
        big[1::2] = 31
        return big[0::2]
    return x.copy()


def live_object_dev(make, changes, outputs=('psd', 'ar', 'reflection', 'rho', 'ma')):
    """Class form on a second computation: build an object with make(**kw0), read its psd, then apply the
    attribute changes one at a time (reading psd after each) and return the largest relative deviation between
    the live object's outputs and those of a fresh object built with the final attribute values.
    changes: list of (attribute, value, constructor keyword)."""
    import numpy as np
    p = make()
    p.psd
    kw = {}
    worst = 0.0
    for attr, val, key in changes:
        kw[key] = val
        try:
            q = make(**kw)
            fresh = np.array(q.psd)
        except Exception:
            return None            # the estimator itself refuses these values (degenerate data): nothing to compare
        setattr(p, attr, val)
        live = np.array(p.psd)
        if live.shape != fresh.shape:
            return float('inf')
        pairs = [(live, fresh)]
        for o in outputs[1:]:
            a, b = getattr(p, o, None), getattr(q, o, None)
            if a is not None and b is not None:
                pairs.append((np.atleast_1d(np.asarray(a)), np.atleast_1d(np.asarray(b))))
        for a, b in pairs:
            if a.shape != b.shape:
                return float('inf')
            sc = max(float(np.max(np.abs(b))), 1e-300)
            worst = max(worst, float(np.max(np.abs(a - b))) / sc)
    # ... and a new record of the same length assigned to the live (already evaluated) object: the model is that of an
    # object that was given the record before it ever computed anything
    try:
        new = np.asarray(p.data)[::-1] * 1.5 + 0.25
        q = make(**kw)
        q.data = new.copy()
        fresh = np.array(q.psd)
    except Exception:
        return worst
    p.data = new.copy()
    live = np.array(p.psd)
    if live.shape != fresh.shape:
        return float('inf')
    pairs = [(live, fresh)]
    for o in outputs[1:]:
        a, b = getattr(p, o, None), getattr(q, o, None)
        if a is not None and b is not None:
            pairs.append((np.atleast_1d(np.asarray(a)), np.atleast_1d(np.asarray(b))))
    for a, b in pairs:
        if a.shape != b.shape:
            return float('inf')
        sc = max(float(np.max(np.abs(b))), 1e-300)
        worst = max(worst, float(np.max(np.abs(a - b))) / sc)
    return worst
