"""Parser for TLA+ values as printed by TLC (state dumps, PrintT, error traces).

Supported: integers, strings, TRUE/FALSE, model values / identifiers, tuples <<..>>,
sets {..}, records [a |-> v, ..], functions (a :> v @@ b :> w), intervals a..b.
Tuples -> Python tuples, sets -> frozenset (or tuple when unhashable), records and
functions -> dict.
"""
import re

_TOKEN = re.compile(r'''\s*(
    <<|>>|\|->|:>|@@|\.\.|[\[\]{}(),]|
    -?\d+|
    "(?:[^"\\]|\\.)*"|
    [A-Za-z_][A-Za-z0-9_!]*
)''', re.X)


class TlaParseError(Exception):
    pass


def tokenize(s):
    pos = 0
    out = []
    n = len(s)
    while pos < n:
        m = _TOKEN.match(s, pos)
        if not m:
            if s[pos:].strip() == '':
                break
            raise TlaParseError('bad token at %r' % s[pos:pos + 40])
        out.append(m.group(1))
        pos = m.end()
    return out


class _P(object):
    def __init__(self, toks):
        self.t = toks
        self.i = 0

    def peek(self):
        return self.t[self.i] if self.i < len(self.t) else None

    def take(self, expect=None):
        tok = self.peek()
        if tok is None or (expect is not None and tok != expect):
            raise TlaParseError('expected %r got %r at %d' % (expect, tok, self.i))
        self.i += 1
        return tok

    def value(self):
        tok = self.peek()
        if tok == '<<':
            self.take()
            items = []
            while self.peek() != '>>':
                items.append(self.value())
                if self.peek() == ',':
                    self.take()
            self.take('>>')
            return tuple(items)
        if tok == '{':
            self.take()
            items = []
            while self.peek() != '}':
                items.append(self.value())
                if self.peek() == ',':
                    self.take()
            self.take('}')
            try:
                return frozenset(items)
            except TypeError:
                return tuple(items)
        if tok == '[':
            self.take()
            d = {}
            while self.peek() != ']':
                k = self.take()
                self.take('|->')
                d[k] = self.value()
                if self.peek() == ',':
                    self.take()
            self.take(']')
            return d
        if tok == '(':
            self.take()
            d = {}
            while True:
                k = self.value()
                self.take(':>')
                v = self.value()
                d[k] = v
                if self.peek() == '@@':
                    self.take()
                    continue
                break
            self.take(')')
            return d
        tok = self.take()
        if tok[0] == '"':
            return bytes(tok[1:-1], 'utf-8').decode('unicode_escape')
        if re.match(r'-?\d+$', tok):
            v = int(tok)
            if self.peek() == '..':
                self.take()
                hi = int(self.take())
                return tuple(range(v, hi + 1))
            return v
        if tok == 'TRUE':
            return True
        if tok == 'FALSE':
            return False
        return tok  # model value


def parse_value(s):
    p = _P(tokenize(s))
    v = p.value()
    if p.peek() is not None:
        raise TlaParseError('trailing tokens: %r' % p.t[p.i:p.i + 5])
    return v


_VAR = re.compile(r'^/\\ ([A-Za-z_][A-Za-z0-9_]*) = ', re.M)


def parse_state_block(block):
    """block: text '/\\ a = ...\\n/\\ b = ...' (values may span lines) -> dict"""
    ms = list(_VAR.finditer(block))
    d = {}
    for k, m in enumerate(ms):
        end = ms[k + 1].start() if k + 1 < len(ms) else len(block)
        d[m.group(1)] = parse_value(block[m.end():end])
    if not ms:
        # single-variable specs print 'x = value'
        m = re.match(r'\s*([A-Za-z_][A-Za-z0-9_]*) = ', block)
        if m:
            d[m.group(1)] = parse_value(block[m.end():])
    return d


def iter_dump(path):
    """Yield dicts for each state of a TLC '-dump' file."""
    with open(path) as f:
        buf = []
        for line in f:
            if line.startswith('State '):
                if buf:
                    yield parse_state_block(''.join(buf))
                buf = []
            elif line.strip():
                buf.append(line)
        if buf:
            yield parse_state_block(''.join(buf))
