"""Session.tla binding: replay every call sequence TLC enumerates and compare each result with the isolated result
of the same call token (computed alone in a fresh interpreter)."""
import os
import pickle
import subprocess
import sys
import tempfile

import numpy as np

from . import core, tlc

PREAMBLE = '''
import os
os.environ.setdefault('OMP_NUM_THREADS', '1')
import warnings
warnings.simplefilter('ignore')
import numpy as np
import spectrum as sp
from spectrum import linear_prediction as lp
from spectrum.eigenfre import eigen
_r = np.random.RandomState(4242)
X1 = _r.randn(24) + np.cos(0.7 * np.arange(24))
X2 = _r.randn(24)
X3 = _r.randn(17)
Z1 = X1 + 1j * _r.randn(24)
Z2 = X2 * (1 + 0.5j)
'''


def _flatten(v):
    """result -> list of float/complex arrays (tuples and lists of arrays are flattened)"""
    if isinstance(v, (tuple, list)) and not all(np.isscalar(e) for e in v):
        out = []
        for e in v:
            out += _flatten(e)
        return out
    try:
        return [np.array(v, dtype=complex)]
    except Exception:
        return []


def isolated(exprs):
    """each expression evaluated alone -> list of flattened results (None when it raises).  One fresh interpreter
    imports the library once and then forks one child per expression: the children share nothing they write."""
    env = dict(os.environ)
    d = tempfile.mkdtemp(dir=tlc.WORK if os.path.isdir(tlc.WORK) else None)
    code = PREAMBLE + """
import pickle, sys
sys.path.insert(0, %r)
from harness.session import _flatten
EXPRS = %r
for _i, _ex in enumerate(EXPRS):
    _pid = os.fork()
    if _pid == 0:
        try:
            _v = eval(_ex)
            _out = _flatten(_v)
        except Exception:
            _out = None
        pickle.dump(_out, open(os.path.join(%r, '%%d.pkl' %% _i), 'wb'))
        os._exit(0)
    os.waitpid(_pid, 0)
""" % (core.VERIF, list(exprs), d)
    try:
        p = subprocess.run([sys.executable, '-c', code], env=env, stdout=subprocess.PIPE, stderr=subprocess.PIPE)
        if p.returncode != 0:
            raise core.MachineryError('isolated evaluation failed: %s' % p.stderr.decode()[-400:])
        out = []
        for i in range(len(exprs)):
            f = os.path.join(d, '%d.pkl' % i)
            if not os.path.exists(f):
                raise core.MachineryError('isolated evaluation of %s produced nothing' % exprs[i])
            out.append(pickle.load(open(f, 'rb')))
        return out
    finally:
        import shutil
        shutil.rmtree(d, ignore_errors=True)


def same(a, b, rtol=1e-9):
    if a is None or b is None:
        return a is None and b is None
    if len(a) != len(b):
        return False
    for u, v in zip(a, b):
        if u.shape != v.shape:
            return False
        if u.size and not np.allclose(u, v, rtol=rtol, atol=rtol * max(1e-300, float(np.max(np.abs(v))) if v.size else 0.0), equal_nan=True):
            return False
    return True


def run_session(chk, prop, exprs, maxlen=3, part='session'):
    """exprs: list of python expressions over the PREAMBLE names (the call tokens of this property)."""
    os.makedirs(tlc.WORK, exist_ok=True)
    ref = isolated(exprs)
    if all(r is None for r in ref):
        raise core.MachineryError('every session token raises when evaluated alone')
    ns = {}
    exec(PREAMBLE, ns)
    cfg = tlc._cfg_text(constants={'NTokens': len(exprs), 'MaxLen': maxlen}, invariants=['HistoryFree'], properties=['Stable'])
    res = chk.tlc('Session', cfg, part=part, workers=2)
    try:
        seqs = [tuple(st['hist']) for st in res.states() if len(st['hist']) == maxlen]
    finally:
        tlc.cleanup(res.workdir)
    seqs.sort()
    kept = {}          # token -> an earlier result object of this process (checked again later: Stable)
    for seq in seqs:
        for pos, t in enumerate(seq):
            ex = exprs[t - 1]
            try:
                v = eval(ex, ns)
                got = _flatten(v)
            except Exception:
                got = None
            chk.evaluations += 1
            if not same(got, ref[t - 1]):
                chk.violation('%s:session:%s:depends-on-earlier-calls' % (prop, ex.split('(')[0]),
                              'in the call sequence %s the result of `%s` differs from the result of the same call made alone in a fresh interpreter'
                              % ([exprs[i - 1] for i in seq[:pos + 1]], ex), {'sequence': [exprs[i - 1] for i in seq], 'position': pos, 'token': ex})
                break
            if t not in kept:
                kept[t] = v             # the first result object of this token in this process (not a copy)
    for t, v in kept.items():
        if not same(_flatten(v), ref[t - 1]):
            chk.violation('%s:session:%s:earlier-result-revised' % (prop, exprs[t - 1].split('(')[0]),
                          'a result of `%s` obtained early in the session no longer holds its values after the later calls' % exprs[t - 1],
                          {'token': exprs[t - 1]})
    chk.replayed += len(seqs)
    chk.count(part, 'sequences', len(seqs))
    chk.count(part, 'tokens', len(exprs))


TOKENS = {
    'C01': ["sp.speriodogram(X1, NFFT=32, detrend=False, scale_by_freq=False, window='hann')",
            "sp.speriodogram(X2, NFFT=32, detrend=False, scale_by_freq=False, window='hann')",
            "sp.speriodogram(X1, NFFT=32, detrend=False, scale_by_freq=False, window='hamming')",
            "sp.CORRELOGRAMPSD(X1, lag=23, window='rectangular', norm='biased', NFFT=47)",
            # a parametrised window of the length the other tokens use, with two parameter values, and the same name without
            "sp.CORRELOGRAMPSD(X1, lag=11, window='kaiser', window_params={'beta': 2.0}, norm='biased', NFFT=47)",
            "sp.CORRELOGRAMPSD(X1, lag=11, window='kaiser', window_params={'beta': 9.0}, norm='biased', NFFT=47)",
            "sp.speriodogram(X1[:23], NFFT=32, detrend=False, scale_by_freq=False, window='kaiser')"],
    'C09': ["sp.CORRELATION(X1[:6], X2[:4], maxlags=5, norm=None)", "sp.CORRELATION(X1[:6], X2[:1], maxlags=5, norm=None)",
            "sp.CORRELATION(X1, maxlags=5, norm='biased')", "sp.xcorr(X1, X2, maxlags=4, norm='biased')[0]",
            "np.asarray(sp.corrmtx(X1, 3, 'modified'))",
            # two records with the same bytes (a complex record and its interleaved real view)
            "np.asarray(sp.corrmtx(Z1[:8], 3, 'modified'))", "np.asarray(sp.corrmtx(Z1[:8].view(float), 3, 'modified'))"],
    'C10': ["sp.LEVINSON(np.array([3., 1., .5, .2]))", "sp.LEVINSON(np.array([2., 1., .3, .1]))", "sp.LEVINSON(np.array([3., 1., .5, .2]), 2)",
            "sp.LEVINSON(np.array([3., 1. + 1j, .5, .2j]))"],
    'C11': ["lp.rc2poly(np.array([0.5, -0.3]), 1.0)", "lp.rc2poly(np.array([0.5, -0.3]), 2.5)", "lp.rc2ac(np.array([0.5, -0.3]), 2.5)",
            "lp.rc2ac(np.array([0.5, -0.3]), 1.0)", "lp.poly2rc(np.array([1, 0.4, 0.2]), 1.0)"],
    'C12': ["sp.aryule(X1, 3, norm='biased')", "sp.aryule(X2, 3, norm='biased')", "sp.aryule(X1, 2, norm='biased')",
            "np.asarray(sp.pyule(X1, 3, norm='biased', NFFT=16).ar)", "np.asarray(sp.pyule(X1, 3, norm='unbiased', NFFT=16).ar)"],
    'C13': ["sp.arburg(X1, 3)", "sp.arburg(X2, 3)", "sp.arburg(Z1, 2)", "sp.arburg(X1, 5, 'AIC')"],
    'C14': ["sp.modcovar_marple(Z1, 4)[0]", "sp.modcovar_marple(Z1, 2)[0]", "sp.arcovar_marple(Z1, 3)[0]", "sp.arcovar(X1, 3)", "sp.modcovar(X2, 3)",
            "sp.arcovar(Z1[:12], 3)", "sp.arcovar(Z1[:12].copy().view(float), 3)"],
    'C15': ["sp.arma_estimate(X1, 3, 3, 8)", "sp.arma_estimate(X2, 3, 3, 8)", "sp.ma(X1, 3, 8)", "np.asarray(sp.pma(X1, 3, 8, NFFT=16).ma)"],
    'C16': ["sp.minvar(X1, 4, NFFT=16)[0]", "sp.minvar(X1, 2, NFFT=16)[0]", "sp.minvar(X2, 3, NFFT=16)[0]", "sp.minvar(Z1, 3, NFFT=9)[0]"],
    'C17': ["eigen(Z1, 6, NSIG=2, method='music', NFFT=16)[0]", "eigen(Z2, 6, NSIG=2, method='ev', NFFT=16)[0]", "eigen(Z1, 6, NSIG=3, method='music', NFFT=16)[0]"],
    'C19': ["sp.dpss(24, 2.5, 4)", "sp.pmtm(X1, NW=2.5, k=4, NFFT=32, method='adapt')[1]", "sp.pmtm(X1 * 50, NW=2.5, k=4, NFFT=32, method='adapt')[1]",
            "sp.pmtm(X2, NW=2.5, k=4, NFFT=32, method='eigen')[0]"],
    'C20': ["sp.create_window(16, 'taylor', sll=-30)", "sp.create_window(16, 'taylor', sll=-30.5)", "sp.create_window(16, 'kaiser', beta=5)",
            "sp.create_window(16, 'kaiser', beta=5.4)", "sp.Window(16, 'gaussian', alpha=2.2).data",
            "sp.Window(16, 'kaiser', beta=5).data", "sp.Window(16, 'kaiser', beta=2).data", "sp.Window(16, 'kaiser').data", "sp.Window(16, 'gaussian').enbw"],
}


def run_for(chk, prop):
    run_session(chk, prop, TOKENS[prop], maxlen=2 if chk.tier == 'quick' else 3)
